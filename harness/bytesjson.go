package harness

import (
	"encoding/json"
	"fmt"
)

// Bytes is a byte slice whose JSON form is a string in which every byte is
// written as the code point of the same value (Latin-1). ASCII stays readable,
// every value survives, and replay files can be edited by hand.
type Bytes []byte

func (b Bytes) MarshalJSON() ([]byte, error) {
	r := make([]rune, len(b))
	for i, c := range b {
		r[i] = rune(c)
	}
	return json.Marshal(string(r))
}

func (b *Bytes) UnmarshalJSON(p []byte) error {
	var s string
	if err := json.Unmarshal(p, &s); err != nil {
		return err
	}
	out := make([]byte, 0, len(s))
	for _, r := range s {
		if r > 0xff {
			return fmt.Errorf("Bytes: code point %U out of range", r)
		}
		out = append(out, byte(r))
	}
	*b = out
	return nil
}
