package harness

import (
	"pgregory.net/rapid"

	"github.com/ulikunitz/lz"
)

// histOpts selects the operation mix of a generated parser history. A weight
// of zero removes the operation (a property draws only the operations its own
// quantifier names).
type histOpts struct {
	// text: if not nil, the text of the history (cyclic) instead of a drawn one
	text      []byte
	maxOps    int
	maxText   int
	write     int
	fill      int // macro: write as much as fits (and a little more)
	readFrom  int
	parse     int
	drain     int // macro: parse until the buffer is empty
	parseNil  int
	shrink    int
	resetNil  int
	resetDat  int
	readAt    int
	byteAt    int
	peekAt    int
	ntlPair   int // macro: Parse(NoTrailingLiterals) directly followed by another Parse
	// shrinkPair: macro: (parse a few blocks, Shrink) two or three times while
	// unparsed data is left, then Parse
	shrinkPair int
	ntl       int // percentage of Parse calls with NoTrailingLiterals
	ntlAllPct int // percentage of histories in which every Parse call carries NoTrailingLiterals
	faults    bool
	overReset bool // draw Reset data longer than BufferSize now and then
	// tinyPct: percentage of histories in "small steps" mode: a text of a
	// few bytes (cyclic, so it repeats at once), chunks of 1..4 bytes, more
	// operations; blocks then end within a few bytes of the end of the data,
	// where the parsers read into the margin behind it.
	tinyPct int
	// suffixPct: percentage of histories whose text comes from the
	// structured families that stress the suffix sorter (Fibonacci, runs,
	// padded records, ...); for the parsers built on suffix.Sort.
	suffixPct int
	// zeroPct: percentage of the small-step histories whose text is mostly
	// 0x00 (the value of an empty hash table slot) with a few other bytes.
	zeroPct int
	// triplePct: percentage of histories whose text holds one string S three
	// times, A ... B ... C, between incompressible fillers, with the distances
	// drawn around the window size (A out of the window of C, B inside, or
	// both inside, or both outside) and C at the very end of the text: the
	// situations in which a parser has to fall back from a candidate outside
	// the window to one inside.
	triplePct int
	// uniformPct: percentage of histories whose whole text is uniform over
	// 2..16 letters (expanded from one drawn seed): isolated short matches
	// at unpredictable places, long literal tails, hash collisions.
	uniformPct int
}

func defaultHistOpts() histOpts {
	return histOpts{
		maxOps: 24, maxText: 600,
		write: 8, fill: 6, readFrom: 4, parse: 12, drain: 6, shrink: 6,
		resetNil: 1, resetDat: 1, ntl: 30, ntlAllPct: 6, ntlPair: 3, shrinkPair: 3, tinyPct: 12, zeroPct: 30, uniformPct: 12, overReset: true,
	}
}

// textSource hands out consecutive chunks of a pre-generated text, cyclically,
// so that long-distance repeats occur when the text is shorter than the stream.
type textSource struct {
	text []byte
	cur  int
}

func (s *textSource) next(n int) []byte {
	if len(s.text) == 0 || n <= 0 {
		return []byte{}
	}
	out := make([]byte, n)
	for i := range out {
		out[i] = s.text[s.cur]
		s.cur++
		if s.cur == len(s.text) {
			s.cur = 0
		}
	}
	return out
}

func (s *textSource) unread(n int) {
	if len(s.text) == 0 {
		return
	}
	s.cur = ((s.cur-n)%len(s.text) + len(s.text)) % len(s.text)
}

func genFlags(t *rapid.T, o histOpts) int {
	f := 0
	if o.ntl > 0 && rapid.IntRange(0, 99).Draw(t, "ntl") < o.ntl {
		f = lz.NoTrailingLiterals
	}
	if rapid.IntRange(0, 24).Draw(t, "otherFlagBits") == 0 {
		// flags is a bit set with one bit defined: the others are ignored,
		// whatever they are (a caller that passes its own flag word on)
		f |= rapid.SampledFrom([]int{2, 0x100, 1 << 30, -2}).Draw(t, "flagBits")
	}
	return f
}

// genParserHistory draws and executes a history step by step (generation
// depends on the model state: how much room is left, which offsets are
// retained); the executed operations are logged in x as the Case.
func genParserHistory(t *rapid.T, x *parserExec, o histOpts) {
	cc := x.cc
	bsz := cc.BufferSize
	if bsz > 1<<16 {
		bsz = 1 << 16
	}
	if o.ntlAllPct > 0 && rapid.IntRange(0, 99).Draw(t, "ntlAll") < o.ntlAllPct {
		// a caller that passes NoTrailingLiterals with every call
		o.ntl = 100
	}
	tiny := o.tinyPct > 0 && rapid.IntRange(0, 99).Draw(t, "tiny") < o.tinyPct
	var text []byte
	if o.text != nil {
		text = o.text
	} else if tiny && o.zeroPct > 0 && rapid.IntRange(0, 99).Draw(t, "zeroText") < o.zeroPct {
		n := rapid.IntRange(3, 16).Draw(t, "zeroTextLen")
		text = make([]byte, n)
		for i := range text {
			text[i] = rapid.SampledFrom([]byte{0, 0, 0, 0, 'a', 'b', 1}).Draw(t, "zeroTextByte")
		}
	} else if tiny {
		text = genText(t, "text", rapid.IntRange(2, 12).Draw(t, "tinyText"))
	} else if o.uniformPct > 0 && rapid.IntRange(0, 99).Draw(t, "uniformText") < o.uniformPct {
		k := rapid.SampledFrom([]int{3, 2, 4, 8, 16}).Draw(t, "uniformK")
		x := rapid.Uint64().Draw(t, "uniformSeed")
		text = make([]byte, maxInt(o.maxText-rapid.IntRange(0, o.maxText*3/4).Draw(t, "uniformShort"), 1))
		base := rapid.SampledFrom([]byte{'a', 0, 0xf0}).Draw(t, "uniformBase")
		for i := range text {
			x += 0x9e3779b97f4a7c15
			z := x
			z = (z ^ (z >> 30)) * 0xbf58476d1ce4e5b9
			z = (z ^ (z >> 27)) * 0x94d049bb133111eb
			text[i] = base + byte((z^(z>>31))>>33%uint64(k))
		}
	} else if o.triplePct > 0 && rapid.IntRange(0, 99).Draw(t, "tripleText") < o.triplePct {
		text = genTripleText(t, cc, o.maxText)
	} else if o.suffixPct > 0 && rapid.IntRange(0, 99).Draw(t, "suffixText") < o.suffixPct {
		text, _ = genSuffixText(t, o.maxText)
	} else {
		text = genText(t, "text", o.maxText, cc.BlockSize, cc.BlockSize+1, bsz, bsz-1, bsz+1, cc.WindowSize, cc.WindowSize+1)
	}
	src := &textSource{text: text}
	nops := 3 + rapid.IntRange(0, o.maxOps).Draw(t, "nops")
	if tiny {
		nops += rapid.IntRange(0, 2*o.maxOps).Draw(t, "nopsTiny")
	}
	lastReset := -1
	for i := 0; i < nops && !x.dead; i++ {
		var op int
		if i == 0 && o.resetDat > 0 && rapid.IntRange(0, 9).Draw(t, "startReset") == 0 {
			// start with Reset(data): the buffer then owns an array sized
			// for that data only
			op = 8
		} else if i == 0 && rapid.IntRange(0, 9).Draw(t, "startFill") > 0 {
			// typical start: put data in
			op = rapid.SampledFrom([]int{1, 0, 5}).Draw(t, "startOp")
			if op == 5 && o.readFrom == 0 {
				op = 1
			}
		} else {
			op = weighted(t, "op", o.write, o.fill, o.parse, o.drain, o.shrink, o.readFrom,
				o.parseNil, o.resetNil, o.resetDat, o.readAt, o.byteAt, o.peekAt, o.ntlPair, o.resetDat, o.shrinkPair)
		}
		if x.cfg.Kind == "BUF" && rapid.IntRange(0, 14).Draw(t, "bufReinit") == 0 {
			// a bare ParserBuffer is initialised again (a value from a
			// pool), mostly with a smaller geometry than the array it holds
			nc := genPCfgOpt(t, "BUF", maxInt(cc.BufferSize/2, 8), false)
			x.step(POp{Op: "reinit", Cfg: &nc})
			cc = x.cc
			bsz = minInt(cc.BufferSize, 1<<16)
			continue
		}
		switch op {
		case 0: // write a chunk
			room := cc.BufferSize - x.buffered()
			n := genSize(t, "wlen", minInt(len(text)+8, 2*bsz+8), 0, 1, room-1, room, room+1, cc.BlockSize)
			if tiny {
				n = rapid.IntRange(1, 4).Draw(t, "wlenTiny")
			}
			before := len(x.fed)
			x.step(POp{Op: "write", Data: src.next(n), Empty: n == 0 && rapid.Bool().Draw(t, "emptyNotNil")})
			src.unread(n - (len(x.fed) - before))
		case 1: // fill
			room := cc.BufferSize - x.buffered()
			if room > 1<<16 {
				room = len(text)
			}
			n := room + rapid.IntRange(0, 2).Draw(t, "fillExtra")
			if tiny && rapid.IntRange(0, 3).Draw(t, "fillTiny") > 0 {
				n = rapid.IntRange(1, 8).Draw(t, "fillLenTiny")
			}
			before := len(x.fed)
			x.step(POp{Op: "write", Data: src.next(n)})
			src.unread(n - (len(x.fed) - before))
		case 2:
			x.step(POp{Op: "parse", Flags: genFlags(t, o)})
		case 3: // drain
			fl := genFlags(t, o)
			for k := x.unparsed() + 2; k > 0 && !x.dead; k-- {
				before := x.w
				un := x.unparsed()
				x.step(POp{Op: "parse", Flags: fl})
				if un == 0 || x.w == before {
					break
				}
			}
		case 4:
			x.step(POp{Op: "shrink"})
		case 5: // ReadFrom
			room := cc.BufferSize - x.buffered()
			n := genSize(t, "rlen", minInt(len(text)+8, 2*bsz+8), 0, 1, room-1, room, room+1)
			if tiny {
				n = rapid.IntRange(1, 6).Draw(t, "rlenTiny")
			}
			data := src.next(n)
			rs := genReaderScript(t, "rs", data, o.faults)
			if rapid.IntRange(0, 15).Draw(t, "rsBuffer") == 0 {
				// a *bytes.Buffer, in a third of the cases an empty one
				rs.Events, rs.Poll, rs.Piece = nil, 0, 0
				if rapid.IntRange(0, 2).Draw(t, "rsBufferEmpty") == 0 {
					src.unread(n)
					n, data, rs.Data = 0, nil, nil
				}
				rs.Multi = []MultiPart{{N: len(data), Kind: "buffer"}}
			} else if rapid.IntRange(0, 7).Draw(t, "rsMulti") == 0 {
				rs.Events, rs.Poll, rs.Piece = nil, 0, 0
				for k := rapid.IntRange(1, 4).Draw(t, "rsParts"); k > 0; k-- {
					rs.Multi = append(rs.Multi, MultiPart{
						N:    genSize(t, "rsPartLen", len(data)+1, 0, 1, cc.BufferSize-x.buffered()),
						Kind: rapid.SampledFrom([]string{"bytes", "limit", "plain", "bufio", "dataerr", "onebyte", "strings"}).Draw(t, "rsPartKind"),
					})
				}
			}
			before := len(x.fed)
			x.step(POp{Op: "readfrom", R: &rs})
			src.unread(n - (len(x.fed) - before))
		case 6:
			x.step(POp{Op: "parsenil", Flags: genFlags(t, o)})
		case 7:
			x.step(POp{Op: "reset", Nil: true})
		case 8: // Reset(data) with spare capacity
			max := minInt(cc.BufferSize, len(text)+8)
			n := genSize(t, "resetLen", max, 0, 1, max)
			if o.overReset && rapid.IntRange(0, 7).Draw(t, "resetOver") == 0 && cc.BufferSize < 1<<16 {
				n = cc.BufferSize + rapid.IntRange(1, 3).Draw(t, "resetOverBy")
			}
			if lastReset >= 0 && rapid.IntRange(0, 2).Draw(t, "resetNear") == 0 {
				// a length close to that of the previous Reset: the buffer
				// reuses the array it allocated then
				n = minInt(maxInt(lastReset+rapid.IntRange(-8, 8).Draw(t, "resetNearBy"), 0), cc.BufferSize)
			}
			cp := rapid.SampledFrom([]int{0, 6, 7, 8, 64, bsz + 100}).Draw(t, "resetCap")
			lastReset = n
			if tiny {
				n = minInt(n, rapid.IntRange(0, 6).Draw(t, "resetLenTiny"))
				lastReset = n
			}
			x.step(POp{Op: "reset", Data: src.next(n), Cap: cp, Fill: rapid.SampledFrom([]byte{0, 0xa5, 'a', 0xff}).Draw(t, "resetFill"),
				Reuse: rapid.IntRange(0, 3).Draw(t, "resetReuse") == 0})
		case 13: // macro: Reset(d1); [parse]; Reset(d2) of nearly the same length; Parse
			// The buffer copies or adopts d1 (depending on its spare
			// capacity) and meets d2 with the array it got for d1.
			caps := []int{0, 0, 0, 7, 7, 7, 8, 8, 6, 64}
			max := minInt(cc.BufferSize, len(text)+8)
			n1 := genSize(t, "rp1Len", max, 0, 1, max)
			x.step(POp{Op: "reset", Data: src.next(n1), Cap: rapid.SampledFrom(caps).Draw(t, "rp1Cap")})
			switch rapid.IntRange(0, 3).Draw(t, "rpBetween") {
			case 0:
				x.step(POp{Op: "parse", Flags: genFlags(t, o)})
			case 1:
				for k := x.unparsed() + 2; k > 0 && !x.dead; k-- {
					un := x.unparsed()
					x.step(POp{Op: "parse"})
					if un == 0 {
						break
					}
				}
			}
			n2 := minInt(maxInt(n1+rapid.IntRange(-8, 8).Draw(t, "rp2By"), 0), cc.BufferSize)
			if rapid.IntRange(0, 2).Draw(t, "rp2Same") == 0 {
				n2 = n1
			}
			x.step(POp{Op: "reset", Data: src.next(n2), Cap: rapid.SampledFrom(caps).Draw(t, "rp2Cap"), Reuse: rapid.Bool().Draw(t, "rp2Reuse")})
			lastReset = n2
			x.step(POp{Op: "parse", Flags: genFlags(t, o)})
		case 14: // macro: (a few blocks parsed, Shrink) two or three times with unparsed data left, then Parse
			for k := rapid.IntRange(2, 3).Draw(t, "spRounds"); k > 0 && !x.dead; k-- {
				for j := rapid.IntRange(1, 3).Draw(t, "spParses"); j > 0 && x.unparsed() > 0 && !x.dead; j-- {
					x.step(POp{Op: "parse", Flags: genFlags(t, o)})
				}
				x.step(POp{Op: "shrink"})
			}
			x.step(POp{Op: "parse", Flags: genFlags(t, o)})
		case 9:
			off := genOffset(t, x)
			ln := genSize(t, "ralen", x.buffered()+3, 0, 1)
			x.step(POp{Op: "readat", Off: off, Len: ln})
		case 10:
			x.step(POp{Op: "byteat", Off: genOffset(t, x)})
		case 12:
			x.step(POp{Op: "parse", Flags: lz.NoTrailingLiterals})
			x.step(POp{Op: "parse", Flags: genFlags(t, o)})
		case 11:
			off := genOffset(t, x)
			ln := genSize(t, "pklen", x.buffered()+3, 0, 1)
			x.step(POp{Op: "peekat", Off: off, Len: ln})
		}
	}
}

// genOffset draws an absolute offset around the retained range.
func genOffset(t *rapid.T, x *parserExec) int64 {
	lo, hi := int64(x.off), int64(len(x.fed))
	switch weighted(t, "offKind", 4, 2, 2, 2, 2, 2, 1, 1, 1) {
	case 0:
		if hi > lo {
			return rapid.Int64Range(lo, hi-1).Draw(t, "offIn")
		}
		return lo
	case 1:
		return lo
	case 2:
		return lo - 1
	case 3:
		return hi - 1
	case 4:
		return hi
	case 5:
		return hi + 1
	case 6:
		return -1 - int64(rapid.IntRange(0, 1000).Draw(t, "offNeg"))
	case 7:
		return int64(x.w)
	default:
		return rapid.Int64Range(0, 1<<40).Draw(t, "offHuge")
	}
}

// replayParserCase re-executes a stored case.
func replayParserCase(c ParserCase, setup func(x *parserExec)) (*parserExec, error) {
	x, err := newParserExec(c.Cfg)
	if err != nil {
		return x, err
	}
	if setup != nil {
		setup(x)
	}
	for _, op := range c.Ops {
		x.step(op)
	}
	return x, nil
}

// genTripleText: filler . P.S . filler . P.S . filler . Q.S (see triplePct).
func genTripleText(t *rapid.T, cc PCfg, maxText int) []byte {
	limit := minInt(maxInt(cc.BufferSize, 64), maxText)
	w := minInt(cc.WindowSize, limit)
	x := rapid.Uint64().Draw(t, "tripleSeed")
	filler := func(n int) []byte {
		p := make([]byte, maxInt(n, 0))
		for i := range p {
			x += 0x9e3779b97f4a7c15
			z := x
			z = (z ^ (z >> 30)) * 0xbf58476d1ce4e5b9
			z = (z ^ (z >> 27)) * 0x94d049bb133111eb
			p[i] = 128 + byte((z^(z>>31))>>40)&127
		}
		return p
	}
	sl := rapid.IntRange(9, 60).Draw(t, "tripleS")
	s := make([]byte, sl)
	for i := range s {
		s[i] = byte('a' + (i*7+int(x>>8))%26)
		if i%2 == 1 {
			s[i] = byte('A' + (i*5+int(x>>16))%26)
		}
	}
	pre := []byte("<<<<")[:rapid.IntRange(0, 4).Draw(t, "triplePre")]
	// distance from B to C and from A to C, relative to the window
	dist := func(label string) int {
		switch rapid.IntRange(0, 4).Draw(t, label) {
		case 0:
			return sl + 1 + rapid.IntRange(0, maxInt(w-sl-1, 0)).Draw(t, label+"in")
		case 1:
			return w
		case 2:
			return w + 1
		case 3:
			return w + 1 + rapid.IntRange(0, maxInt(limit/3, 1)).Draw(t, label+"out")
		default:
			return maxInt(w-1, sl+1)
		}
	}
	dBC := dist("tripleBC")
	dAC := dBC + sl + len(pre) + rapid.IntRange(1, maxInt(limit/3, 2)).Draw(t, "tripleAB")
	if rapid.Bool().Draw(t, "tripleAout") && dAC <= w {
		dAC = w + 1 + rapid.IntRange(0, 8).Draw(t, "tripleAoutBy")
	}
	lead := rapid.IntRange(0, 40).Draw(t, "tripleLead")
	var out []byte
	out = append(out, filler(lead)...)
	out = append(out, pre...)
	out = append(out, s...) // A
	out = append(out, filler(dAC-dBC-sl-len(pre))...)
	out = append(out, pre...)
	out = append(out, s...) // B
	q := []byte(">>>>")[:rapid.IntRange(0, 4).Draw(t, "tripleQ")]
	out = append(out, filler(dBC-sl-len(q))...)
	out = append(out, q...)
	out = append(out, s...) // C, at the very end
	return out
}
