package harness

import (
	"math"

	"github.com/ulikunitz/lz"
	"pgregory.net/rapid"
)

// decOpts selects the operation mix of a generated decoder history.
type decOpts struct {
	preCap     []int64 // dbuf: capacities of the array the caller hands in before Init (nil: drawn by the property body)
	vehicle    string  // "dbuf" or "dec"
	maxOps     int
	hostile    int // percentage of match/block operands that are hostile
	faults     bool
	bigSizes   int  // percentage of sizes drawn relative to the free space (incl. oversize)
	noOversize bool // never draw items larger than BufferSize-WindowSize (not used for exclusion of findings)
	reset      int
	readBias   int // dbuf: extra weight for read/writeto
}

// genDCfg draws a decoder geometry: WindowSize 1..64 (mass on 1..8),
// BufferSize in {0 (= 2W), W+1, W+2, ..., W+64}; rarely the defaults.
func genDCfg(t *rapid.T) DCfg {
	var c DCfg
	if rapid.IntRange(0, 39).Draw(t, "defaults") == 0 {
		// the defaults: WindowSize 8 MiB, BufferSize 16 MiB (allocated lazily)
		return c
	}
	switch weighted(t, "winKind", 5, 3, 1) {
	case 0:
		c.WindowSize = rapid.IntRange(1, 8).Draw(t, "win")
	case 1:
		c.WindowSize = rapid.IntRange(9, 64).Draw(t, "winBig")
	default:
		c.WindowSize = rapid.SampledFrom([]int{1, 2, 16, 32, 64}).Draw(t, "winPow")
	}
	w := c.WindowSize
	switch weighted(t, "bufKind", 3, 2, 2, 3, 2) {
	case 0:
		c.BufferSize = 0
	case 1:
		c.BufferSize = w + 1
	case 2:
		c.BufferSize = w + 2
	case 3:
		c.BufferSize = w + 1 + rapid.IntRange(0, 63).Draw(t, "bufExtra")
	default:
		c.BufferSize = 2*w + rapid.IntRange(-1, 8).Draw(t, "buf2w")
		if c.BufferSize <= w {
			c.BufferSize = w + 1
		}
	}
	return c
}

var hostilePool = []uint32{0, 1, 2, math.MaxInt32 - 1, math.MaxInt32, math.MaxInt32 + 1, math.MaxUint32 - 1, math.MaxUint32}

func genHostileU32(t *rapid.T, label string, bound int) uint32 {
	switch weighted(t, label+"k", 3, 3, 1) {
	case 0:
		return rapid.SampledFrom(hostilePool).Draw(t, label+"pool")
	case 1:
		d := rapid.IntRange(-1, 2).Draw(t, label+"d")
		v := bound + d
		if v < 0 {
			v = 0
		}
		return uint32(v)
	default:
		return rapid.Uint32().Draw(t, label+"any")
	}
}

// genItemSize draws a size relative to the free space BufferSize-WindowSize.
func genItemSize(t *rapid.T, label string, cc DCfg, o decOpts) int {
	free := cc.BufferSize - cc.WindowSize
	if free > 1<<12 {
		free = 1 << 12 // default geometry: keep items small
	}
	bs := minInt(cc.BufferSize, 1<<12)
	if rapid.IntRange(0, 99).Draw(t, label+"?big") < o.bigSizes {
		cands := []int{free - 1, free, free / 2, 1, 0}
		if !o.noOversize {
			cands = append(cands, free+1, bs, bs+3, 2*bs+1)
		}
		v := rapid.SampledFrom(cands).Draw(t, label+"rel")
		if v < 0 {
			v = 0
		}
		return v
	}
	max := 12
	if o.noOversize && free < max {
		max = free
	}
	return rapid.IntRange(0, max).Draw(t, label)
}

func genLits(t *rapid.T, label string, n int) []byte {
	b := make([]byte, n)
	if n == 0 {
		return b
	}
	base := rapid.SampledFrom([]byte{'a', 0, 0xff, 'x'}).Draw(t, label+"base")
	k := rapid.IntRange(1, 3).Draw(t, label+"alpha")
	if n <= 6 {
		for i := range b {
			b[i] = base + byte(rapid.IntRange(0, k-1).Draw(t, label+"b"))
		}
		return b
	}
	// long runs: derive from a few draws
	seed := rapid.IntRange(0, 255).Draw(t, label+"seed")
	for i := range b {
		b[i] = base + byte((i*7+seed+i/3)%k)
	}
	return b
}

// genValidMatch draws (m, o) valid for a stream of `have` bytes.
func genValidMatch(t *rapid.T, label string, cc DCfg, have int, o decOpts) (m, off uint32, ok bool) {
	bound := minInt(cc.WindowSize, have)
	if bound < 1 {
		return 0, 0, false
	}
	switch weighted(t, label+"ok", 3, 3, 2) {
	case 0:
		off = uint32(rapid.IntRange(1, bound).Draw(t, label+"o"))
	case 1:
		off = uint32(bound)
	default:
		off = 1
	}
	m = uint32(genItemSize(t, label+"m", cc, o))
	return m, off, true
}

// genBlock draws a block that is valid for a stream of `have` bytes (all
// sequences well-formed, possibly larger than the free space), and optionally
// corrupts one sequence.
func genBlock(t *rapid.T, cc DCfg, have int, o decOpts, hostile bool) (seqs []lz.Seq, lits []byte) {
	ns := rapid.IntRange(0, 4).Draw(t, "nseq")
	if rapid.IntRange(0, 5).Draw(t, "manySeqs") == 0 {
		// a block that needs several rounds of making room
		ns = rapid.IntRange(5, 16).Draw(t, "nseqMany")
	}
	cur := have
	budget := genItemSize // alias for readability
	for i := 0; i < ns; i++ {
		var s lz.Seq
		ll := rapid.IntRange(0, 5).Draw(t, "litLen")
		if rapid.IntRange(0, 9).Draw(t, "litBig") == 0 {
			ll = budget(t, "litLenBig", cc, o)
		}
		s.LitLen = uint32(ll)
		m, off, ok := genValidMatch(t, "seq", cc, cur+ll, o)
		if ok {
			if o.noOversize {
				free := cc.BufferSize - cc.WindowSize
				if ll > free {
					ll = free
					s.LitLen = uint32(ll)
				}
				if int(m)+ll > free {
					m = uint32(free - ll)
				}
			}
			s.MatchLen, s.Offset = m, off
		}
		lits = append(lits, genLits(t, "lits", ll)...)
		seqs = append(seqs, s)
		cur += ll + int(s.MatchLen)
	}
	tl := 0
	switch weighted(t, "trailKind", 3, 3, 2, 2) {
	case 3:
		// a literal tail that is longer than flushing can make room for
		free := maxInt(cc.BufferSize-cc.WindowSize, 1)
		tl = free + rapid.IntRange(1, minInt(2*free+3, 4096)).Draw(t, "trailOver")
		if o.noOversize {
			tl = free
		}
		if free > 1<<12 {
			// (the default geometry: megabytes per block; the large
			// decoder histories cover it)
			tl = budget(t, "trailBigDefault", cc, o)
		}
	case 0:
		tl = 0
	case 1:
		tl = rapid.IntRange(0, 6).Draw(t, "trail")
	default:
		tl = budget(t, "trailBig", cc, o)
	}
	lits = append(lits, genLits(t, "tlits", tl)...)
	if hostile && len(seqs) > 0 {
		i := rapid.IntRange(0, len(seqs)-1).Draw(t, "badAt")
		// stream length in front of sequence i
		before, lp := have, 0
		for j := 0; j < i; j++ {
			before += int(seqs[j].LitLen) + int(seqs[j].MatchLen)
			lp += int(seqs[j].LitLen)
		}
		s := &seqs[i]
		switch weighted(t, "badKind", 3, 3, 3, 2, 1) {
		case 0: // offset zero with a match
			s.Offset = 0
			if s.MatchLen == 0 {
				s.MatchLen = uint32(rapid.IntRange(1, 5).Draw(t, "badM"))
			}
		case 1: // offset beyond the window / the data
			bound := minInt(cc.WindowSize, before+int(s.LitLen))
			s.Offset = genHostileU32(t, "badOff", bound+1)
			if int64(s.Offset) <= int64(bound) {
				s.Offset = uint32(bound + 1)
			}
		case 2: // LitLen beyond the literals
			rem := len(lits) - lp
			s.LitLen = genHostileU32(t, "badLit", rem+1)
			if int64(s.LitLen) <= int64(rem) {
				s.LitLen = uint32(rem + 1)
			}
			if rapid.Bool().Draw(t, "badLitSmall") {
				s.LitLen = uint32(rem + rapid.IntRange(1, 8).Draw(t, "badLitBy"))
			}
		case 3: // enormous but well-formed match length
			s.MatchLen = rapid.SampledFrom([]uint32{math.MaxInt32, math.MaxInt32 + 1, math.MaxUint32, 1 << 20}).Draw(t, "hugeM")
		default: // arbitrary fields
			s.LitLen = genHostileU32(t, "anyLit", 1)
			s.MatchLen = genHostileU32(t, "anyM", 1)
			s.Offset = genHostileU32(t, "anyO", 1)
		}
		// Sometimes a second sequence is hostile too: fields that only make
		// sense together with the first one (sums of LitLen or of
		// LitLen+MatchLen that pass 2^32).
		if len(seqs) > 1 && rapid.IntRange(0, 2).Draw(t, "bad2") == 0 {
			j := rapid.IntRange(0, len(seqs)-1).Draw(t, "badAt2")
			if j != i {
				s2 := &seqs[j]
				comp := uint32(0) - s.LitLen // wraps the sum of the two to 0
				switch rapid.IntRange(0, 3).Draw(t, "bad2Kind") {
				case 0:
					s2.LitLen = comp + uint32(rapid.IntRange(0, len(lits)+1).Draw(t, "bad2Lit"))
				case 1:
					s2.LitLen = math.MaxUint32 - uint32(rapid.IntRange(0, 16).Draw(t, "bad2LitTop"))
				case 2:
					s2.MatchLen = math.MaxUint32 - s2.LitLen + uint32(rapid.IntRange(0, 3).Draw(t, "bad2M"))
				default:
					s2.LitLen = genHostileU32(t, "bad2AnyLit", 1)
				}
			}
		}
	}
	return seqs, lits
}

// genDecHistory draws and executes a decoder history step by step; valid
// operands are drawn from the model state (how many bytes have been written).
func genDecHistory(t *rapid.T, x *decExec, o decOpts) {
	cc := x.cc
	nops := 2 + rapid.IntRange(0, o.maxOps).Draw(t, "nops")
	for i := 0; i < nops && !x.dead; i++ {
		hostile := o.hostile > 0 && rapid.IntRange(0, 99).Draw(t, "hostile?") < o.hostile
		var op int
		if x.buf != nil {
			op = weighted(t, "op", 2, 3, 4, 6, 3+o.readBias, 2+o.readBias, o.reset, 1)
		} else {
			// wbyte, write, (no wmatch), wblock, (no read), (no writeto), reset, flush
			op = []int{0, 1, 3, 8, 6}[weighted(t, "op", 2, 3, 7, 2, o.reset)]
		}
		switch op {
		case 0:
			x.step(DOp{Op: "wbyte", C: genLits(t, "c", 1)[0]})
		case 1:
			x.step(DOp{Op: "write", Data: genLits(t, "p", genItemSize(t, "plen", cc, o)), Empty: rapid.Bool().Draw(t, "emptyNotNil")})
		case 2:
			if hostile {
				x.step(DOp{Op: "wmatch", M: genHostileU32(t, "hm", cc.BufferSize), O: genHostileU32(t, "ho", minInt(cc.WindowSize, len(x.all)))})
				continue
			}
			m, off, ok := genValidMatch(t, "wm", cc, len(x.all), o)
			if !ok {
				x.step(DOp{Op: "wbyte", C: 'a'})
				continue
			}
			x.step(DOp{Op: "wmatch", M: m, O: off})
		case 3:
			seqs, lits := genBlock(t, cc, len(x.all), o, hostile)
			x.step(DOp{Op: "wblock", Seqs: seqs, Lits: lits, Empty: rapid.Bool().Draw(t, "emptyNotNil")})
		case 4:
			unread := len(x.all) - x.cursor
			x.step(DOp{Op: "read", Len: genSize(t, "rlen", unread+2, 0, 1, unread, unread-1)})
		case 5:
			var ev *WEvent
			if o.faults && rapid.IntRange(0, 2).Draw(t, "wtFault") == 0 {
				unread := len(x.all) - x.cursor
				ev = &WEvent{Accept: rapid.IntRange(0, maxInt(unread, 1)).Draw(t, "wtAccept"), Err: true}
			}
			x.step(DOp{Op: "writeto", W: ev})
		case 6:
			switch rapid.IntRange(0, 3).Draw(t, "reinit") {
			case 0:
				if x.buf != nil {
					x.step(DOp{Op: "reinit"})
				} else {
					x.step(DOp{Op: "reset"})
				}
			case 1:
				// Init again with another geometry; the array of the old
				// stream stays with the buffer
				nc := genDCfg(t)
				x.step(DOp{Op: "reinit", Cfg: &nc})
				cc = x.cc
			case 2:
				// an Init that is refused (the error is returned) leaves the
				// value as it was; the caller carries on with it
				w := x.cc.WindowSize
				bad := rapid.SampledFrom([]DCfg{{WindowSize: w, BufferSize: w}, {WindowSize: w + 1, BufferSize: w}, {WindowSize: 8, BufferSize: 4},
					{WindowSize: -1, BufferSize: 16}, {WindowSize: 4, BufferSize: -5}, {WindowSize: 1, BufferSize: 1}}).Draw(t, "refusedCfg")
				x.step(DOp{Op: "reinit", Cfg: &bad})
			default:
				x.step(DOp{Op: "reset"})
			}
		case 7:
			x.step(DOp{Op: "byteatend", Len: rapid.IntRange(-1, minInt(cc.WindowSize, 70)+2).Draw(t, "bae")})
		case 8:
			x.step(DOp{Op: "flush"})
		}
	}
}

// genWriterScript draws the fault script of the Decoder's writer.
func genWriterScript(t *rapid.T, faults bool) []WEvent {
	if !faults {
		return nil
	}
	n := rapid.IntRange(0, 12).Draw(t, "wevents")
	var evs []WEvent
	for i := 0; i < n; i++ {
		switch weighted(t, "wev", 5, 2, 1, 1) {
		case 0:
			evs = append(evs, WEvent{Accept: -1})
		case 1:
			evs = append(evs, WEvent{Accept: rapid.IntRange(0, 12).Draw(t, "wacc")})
		case 2:
			evs = append(evs, WEvent{Accept: 0, Err: true})
		default:
			evs = append(evs, WEvent{Accept: -1, Err: true})
		}
		// the value of the writer's error
		if e := &evs[len(evs)-1]; e.Err || e.Accept >= 0 {
			e.Kind = rapid.SampledFrom([]string{"", "", "F", "F", "S", "C"}).Draw(t, "wkind")
		}
	}
	if len(evs) > 0 && rapid.IntRange(0, 9).Draw(t, "wforever") == 0 {
		// the writer fails for good from its last scripted event on
		e := &evs[len(evs)-1]
		if !e.Err && e.Accept < 0 {
			e.Accept = 0
		}
		if e.Kind == "" {
			e.Kind = rapid.SampledFrom([]string{"", "F", "F", "S", "C"}).Draw(t, "wkindForever")
		}
		e.Forever = true
	}
	return evs
}
