package harness

import (
	"encoding/json"
	"fmt"
	"os"
	"path/filepath"
	"reflect"
	"runtime"
	"sync"
	"testing"

	"github.com/ulikunitz/lz"
	"pgregory.net/rapid"
)

// ResetCase: Ops[:Split] is the prior history H1, Ops[Split] is the Reset
// call, Ops[Split+1:] is H2. The twin is a new parser given Ops[Split:].
type ResetCase struct {
	Cfg   PCfg  `json:"cfg"`
	Ops   []POp `json:"ops"`
	Split int   `json:"split"`
	// ExtraResets: the used parser is Reset(nil) this many times between H1
	// and the Reset call of the case (an instance that lives through
	// hundreds of thousands of streams).
	ExtraResets int `json:"extraResets,omitempty"`
}

type resetVerdict struct {
	msg          string
	bad          bool
	h1State      bool
	h2Matches    int
	rejected     bool
	dead         bool
	resultsAfter int
}

func countMatches(res []any) int {
	n := 0
	for _, r := range res {
		if v, ok := r.([]any); ok && len(v) == 5 && v[0] == "parse" {
			n += reflect.ValueOf(v[3]).Len()
		}
	}
	return n
}

// checkResetCase runs H1, Reset, H2 on one parser and Reset, H2 on a new
// parser and compares everything H2 returns; it also runs the whole history
// on a second new parser (determinism).
func checkResetCase(c ResetCase) (v resetVerdict) {
	if c.Split < 0 || c.Split >= len(c.Ops) {
		v.msg = "bad split"
		return v
	}
	run := func(ops []POp, from int, fillXor byte) (*parserExec, []any, error) {
		x, err := newParserExec(c.Cfg)
		if err != nil {
			return x, nil, err
		}
		x.keepRes = true
		x.capFillXor = fillXor
		mark := 0
		for i, op := range ops {
			if i == from {
				mark = len(x.results)
				if from > 0 && !x.dead {
					for k := 0; k < c.ExtraResets; k++ {
						if err := x.p.Reset(nil); err != nil {
							x.report("C13", "Reset(nil) number %d in a row returned %v", k+1, err)
							break
						}
					}
				}
			}
			x.step(op)
		}
		return x, x.results[mark:], nil
	}
	x1, r1, err := run(c.Ops, c.Split, 0)
	if err != nil {
		v.rejected = true
		return v
	}
	// the twins' Reset slices differ in what their spare capacity holds
	x2, r2, _ := run(c.Ops[c.Split:], 0, 0x5a)
	if x1.dead || x2.dead {
		// One of the parsers panicked or returned something the model
		// cannot follow. If that happened behind the Reset to only one of
		// them, or at different points, they behave differently.
		why := func(x *parserExec) string {
			if len(x.findings) > 0 {
				return x.findings[len(x.findings)-1].msg
			}
			return "the model lost track"
		}
		behind := len(x1.log) > c.Split // the used parser got as far as the Reset
		switch {
		case x1.dead && !x2.dead && behind:
			v.bad = true
			v.msg = "after Reset the used parser fails where a new parser does not: " + why(x1)
		case !x1.dead && x2.dead:
			v.bad = true
			v.msg = "a new parser fails where the used parser after Reset does not: " + why(x2)
		case x1.dead && x2.dead && behind && len(r1) != len(r2):
			v.bad = true
			v.msg = fmt.Sprintf("after Reset the used parser and a new parser fail at different calls (%d vs %d results): %s / %s", len(r1), len(r2), why(x1), why(x2))
		default:
			v.dead = true
		}
		return v
	}
	v.resultsAfter = len(r1)
	v.h2Matches = countMatches(r1)
	if !reflect.DeepEqual(r1, r2) {
		v.bad = true
		v.msg = "after Reset the used parser and a new parser return different results: " + firstDiff(r1, r2)
		return v
	}
	x3, r3, _ := run(c.Ops, 0, 0xa5)
	if !reflect.DeepEqual(x1.results, r3) && !x3.dead {
		v.bad = true
		v.msg = "two new parsers given the same calls return different results: " + firstDiff(x1.results, r3)
		return v
	}
	return v
}

func firstDiff(a, b []any) string {
	for i := 0; i < len(a) && i < len(b); i++ {
		if !reflect.DeepEqual(a[i], b[i]) {
			return fmt.Sprintf("result %d: %v vs %v", i, a[i], b[i])
		}
	}
	return fmt.Sprintf("%d results vs %d results", len(a), len(b))
}

func c13Opts() histOpts {
	o := defaultHistOpts()
	o.readAt, o.byteAt = 1, 1
	o.parseNil = 1
	o.maxOps = 16
	o.resetNil, o.resetDat = 1, 2
	o.tinyPct = 30
	o.zeroPct = 50
	return o
}

// genResetCase draws H1, the Reset call and H2 (executing them on a parser, as
// generation depends on the model state).
func genResetCase(t *rapid.T, kind string) (ResetCase, *parserExec, bool) {
	cfg := genPCfg(t, kind, 300)
	if (kind == "DHP" || kind == "BDHP") && rapid.Bool().Draw(t, "il1>=4") {
		// stale entries matter most when the hash covers more than the
		// minimum match
		cfg.InputLen1 = rapid.IntRange(4, 7).Draw(t, "il1")
		cfg.InputLen2 = rapid.IntRange(cfg.InputLen1+1, 8).Draw(t, "il2")
		if cfg.HashBits1 == 0 {
			cfg.HashBits1 = 8
		}
	}
	if kind == "BUP" && rapid.Bool().Draw(t, "smallBuckets") {
		// few, small buckets and a hash over more than the minimum match:
		// an entry that survives Reset is found again
		cfg.InputLen = rapid.IntRange(4, 6).Draw(t, "bupInputLen")
		cfg.HashBits = rapid.IntRange(1, 3).Draw(t, "bupHashBits")
		cfg.BucketSize = rapid.IntRange(2, 4).Draw(t, "bupBucket")
	}
	// related: the data after the Reset is the data before it with a few
	// bytes changed (and a piece of it repeated): what the search structures
	// still know about H1 then points at almost matching places of H2
	mode := rapid.IntRange(0, 5).Draw(t, "related")
	related, abandon := mode <= 2, mode <= 1
	if related && (abandon || rapid.Bool().Draw(t, "relatedBits")) {
		hb := rapid.SampledFrom([]int{0, 8, 10, 12, 16}).Draw(t, "relatedHashBits")
		if abandon && rapid.IntRange(0, 3).Draw(t, "abKeepBits") == 0 {
			hb = cfg.HashBits
		}
		switch kind {
		case "HP", "BHP", "BUP":
			cfg.HashBits = hb
			if cfg.InputLen < 4 {
				cfg.InputLen = rapid.IntRange(4, 6).Draw(t, "relatedInputLen")
			}
		case "DHP", "BDHP":
			cfg.HashBits1, cfg.HashBits2 = hb, hb
		}
	}
	if abandon && rapid.IntRange(0, 3).Draw(t, "abRoom") > 0 {
		// room for a text with a match and a stretch of literals behind it
		if cfg.BufferSize != 0 && cfg.BufferSize < 64 {
			cfg.BufferSize += 64
		}
		if cfg.BlockSize != 0 && cfg.BlockSize < 64 {
			cfg.BlockSize = rapid.SampledFrom([]int{0, 64, 200, cfg.BlockSize + 24}).Draw(t, "abBlockSize")
		}
		if cfg.ShrinkSize >= cfg.BufferSize {
			cfg.ShrinkSize = 0
		}
	}
	x, err := newParserExec(cfg)
	if err != nil {
		return ResetCase{}, nil, false
	}
	if abandon {
		return genAbandonCase(t, cfg, x)
	}
	o1 := c13Opts()
	if related {
		o1.ntl = 60
		o1.tinyPct, o1.uniformPct = 0, 30
		o1.maxText = 120
	}
	genParserHistory(t, x, o1)
	split := len(x.log)
	var h2text []byte
	if related && len(x.fed) > 0 {
		h2text = cloneBytes(x.fed)
		if len(h2text) > 400 {
			h2text = h2text[:400]
		}
		for k := rapid.IntRange(1, 4).Draw(t, "relatedSubst"); k > 0; k-- {
			h2text[rapid.IntRange(0, len(h2text)-1).Draw(t, "relatedAt")] ^= rapid.SampledFrom([]byte{1, 2, 3, 0x20, 0xff}).Draw(t, "relatedXor")
		}
		if rapid.Bool().Draw(t, "relatedRepeat") {
			a := rapid.IntRange(0, len(h2text)-1).Draw(t, "relatedFrom")
			b := minInt(len(h2text), a+rapid.IntRange(1, 24).Draw(t, "relatedLen"))
			h2text = append(h2text, x.fed[a:b]...)
		}
	}
	h1State := x.nSeqBlocks >= 1
	if kind == "GSAP" || kind == "OSAP" {
		h1State = h1State && x.contentChanges >= 2
	}
	if x.dead {
		return ResetCase{}, x, false
	}
	// the Reset call
	if rapid.Bool().Draw(t, "resetWithData") {
		max := minInt(x.cc.BufferSize, 200)
		n := genSize(t, "resetLen", max, 0, 1, max)
		var data []byte
		if h2text != nil {
			n = minInt(n, len(h2text))
			data = cloneBytes(h2text[:n])
			h2text = append(cloneBytes(h2text[n:]), h2text[:n]...)
		} else {
			data = genText(t, "resetText", maxInt(n, 1))
		}
		if len(data) > n {
			data = data[:n]
		}
		cp := rapid.SampledFrom([]int{0, 7, 8, 64}).Draw(t, "resetCap")
		x.step(POp{Op: "reset", Data: data, Cap: cp, Reuse: rapid.Bool().Draw(t, "resetReuse")})
	} else {
		x.step(POp{Op: "reset", Nil: true})
	}
	o := c13Opts()
	o.resetNil, o.resetDat = 0, 0
	if len(h2text) > 0 {
		o.text = h2text
	}
	genParserHistory(t, x, o)
	c := ResetCase{Cfg: cfg, Ops: x.Case().Ops, Split: split}
	return c, x, h1State
}

// genAbandonCase: a stream that is abandoned in the middle. H1 puts one text
// in and parses a part of it, the last call mostly with NoTrailingLiterals, so
// that the search structures know positions at and behind the parse position;
// after the Reset the same text comes again with a few bytes changed around
// that position and pieces of that region repeated behind it.
func genAbandonCase(t *rapid.T, cfg PCfg, x *parserExec) (ResetCase, *parserExec, bool) {
	n := rapid.IntRange(12, minInt(maxInt(x.cc.BufferSize, 12), 160)).Draw(t, "abLen")
	var text []byte
	noise := func(label string, n int) []byte {
		// letters that hardly repeat, expanded from one drawn seed
		k := rapid.SampledFrom([]int{64, 16, 8, 200}).Draw(t, label+"K")
		z := rapid.Uint64().Draw(t, label+"Seed")
		out := make([]byte, n)
		for i := range out {
			z += 0x9e3779b97f4a7c15
			y := (z ^ (z >> 30)) * 0xbf58476d1ce4e5b9
			y = (y ^ (y >> 27)) * 0x94d049bb133111eb
			out[i] = '0' + byte((y^(y>>31))>>33%uint64(k))
		}
		return out
	}
	switch rapid.IntRange(0, 3).Draw(t, "abShape") {
	case 0:
		text = genText(t, "abText", n)
	default:
		// P ... P L: something that matches, then a stretch of literals
		// (and now and then more of the same behind it)
		for len(text) < n {
			p := noise("abP", rapid.IntRange(3, 12).Draw(t, "abPLen"))
			text = append(text, p...)
			text = append(text, noise("abGap", rapid.IntRange(0, 6).Draw(t, "abGapLen"))...)
			text = append(text, p...)
			text = append(text, noise("abL", rapid.IntRange(3, 24).Draw(t, "abLLen"))...)
			if rapid.IntRange(0, 2).Draw(t, "abMore") > 0 {
				break
			}
		}
	}
	if len(text) == 0 {
		text = []byte("abcdabcd")
	}
	if len(text) > x.cc.BufferSize {
		text = text[:x.cc.BufferSize]
	}
	// sameSlice: the text comes in with Reset(data) in a slice with a margin
	// (the parser may adopt it); afterwards the caller refills that very
	// slice with a text of the same length and hands it over again.
	sameSlice := rapid.IntRange(0, 3).Draw(t, "abSameSlice") == 0
	cap0 := rapid.SampledFrom([]int{0, 7, 8, 64}).Draw(t, "abCap0")
	if sameSlice && cap0 == 0 {
		cap0 = 8
	}
	if sameSlice || rapid.Bool().Draw(t, "abResetIn") {
		x.step(POp{Op: "reset", Data: cloneBytes(text), Cap: cap0})
	} else {
		x.step(POp{Op: "write", Data: cloneBytes(text)})
	}
	for k := rapid.SampledFrom([]int{0, 0, 0, 1, 2}).Draw(t, "abParses"); k > 0 && !x.dead; k-- {
		x.step(POp{Op: "parse", Flags: genFlags(t, histOpts{ntl: 30})})
	}
	if rapid.IntRange(0, 4).Draw(t, "abLastNTL") > 0 && !x.dead {
		x.step(POp{Op: "parse", Flags: lz.NoTrailingLiterals})
	}
	if x.dead {
		return ResetCase{}, x, false
	}
	split := len(x.log)
	h1State := x.nSeqBlocks >= 1
	at := x.w - x.off // parse position within the text
	if at < 0 || at > len(text) {
		at = len(text)
	}
	m := cloneBytes(text)
	var tail []byte
	for k := rapid.IntRange(1, 3).Draw(t, "abSubst"); k > 0; k-- {
		lo, hi := minInt(at+2, len(m)-1), minInt(at+12, len(m)-1)
		if rapid.IntRange(0, 3).Draw(t, "abWider") == 0 {
			lo, hi = maxInt(at-4, 0), minInt(at+24, len(m)-1)
		}
		if lo > hi || rapid.IntRange(0, 5).Draw(t, "abAnywhere") == 0 {
			lo, hi = 0, len(m)-1
		}
		q := rapid.IntRange(lo, hi).Draw(t, "abAt")
		m[q] ^= rapid.SampledFrom([]byte{1, 2, 3, 0x20, 0xff}).Draw(t, "abXor")
		if rapid.IntRange(0, 3).Draw(t, "abOriginalAgain") > 0 {
			// what stood there before the change comes again later
			a := maxInt(q-rapid.IntRange(2, 8).Draw(t, "abBefore"), 0)
			b := minInt(q+1+rapid.IntRange(0, 4).Draw(t, "abBehind"), len(text))
			tail = append(tail, text[a:b]...)
		}
	}
	for k := rapid.IntRange(0, 2).Draw(t, "abRepeats"); k > 0; k-- {
		lo := minInt(maxInt(at-4, 0), len(text)-1)
		a := rapid.IntRange(lo, len(text)-1).Draw(t, "abFrom")
		b := minInt(len(text), a+rapid.IntRange(3, 12).Draw(t, "abRepLen"))
		tail = append(tail, text[a:b]...)
	}
	if sameSlice {
		tail = nil
	}
	m = append(m, tail...)
	if len(m) > x.cc.BufferSize {
		m = m[:x.cc.BufferSize]
	}
	if sameSlice {
		x.step(POp{Op: "reset", Data: m, Cap: cap0, Reuse: true})
	} else if rapid.Bool().Draw(t, "abResetWithData") {
		x.step(POp{Op: "reset", Data: m, Cap: rapid.SampledFrom([]int{0, 7, 8, 64}).Draw(t, "abCap"), Reuse: rapid.Bool().Draw(t, "abReuse")})
	} else {
		x.step(POp{Op: "reset", Nil: true})
		x.step(POp{Op: "write", Data: m})
	}
	for k := 0; k < 64 && x.unparsed() > 0 && !x.dead; k++ {
		x.step(POp{Op: "parse"})
	}
	return ResetCase{Cfg: cfg, Ops: x.Case().Ops, Split: split}, x, h1State
}

// TestC13ManyResets: the abandoned-stream cases on small tables, with the used
// parser Reset 255 ... 196607 more times before it is compared with a new one
// (counters and generation marks of 8 and 16 bits wrap in between).
func TestC13ManyResets(t *testing.T) {
	st := statsFor("C13")
	for _, kind := range kindsFromEnv(Kinds) {
		kind := kind
		t.Run(kind, func(t *testing.T) {
			rapid.Check(t, func(t *rapid.T) {
				decorrelate(t, kind)
				cfg := genPCfg(t, kind, 300)
				hb := rapid.SampledFrom([]int{10, 8, 6, 4}).Draw(t, "mrHashBits")
				switch kind {
				case "HP", "BHP", "BUP":
					cfg.HashBits = hb
					if cfg.InputLen < 4 {
						cfg.InputLen = rapid.IntRange(4, 6).Draw(t, "mrInputLen")
					}
					if kind == "BUP" {
						cfg.BucketSize = rapid.IntRange(1, 6).Draw(t, "mrBucket")
					}
				case "DHP", "BDHP":
					cfg.HashBits1, cfg.HashBits2 = hb, hb
					cfg.InputLen1 = rapid.IntRange(3, 5).Draw(t, "mrIL1")
					cfg.InputLen2 = rapid.IntRange(cfg.InputLen1+1, 8).Draw(t, "mrIL2")
				}
				if cfg.BufferSize != 0 && cfg.BufferSize < 64 {
					cfg.BufferSize += 64
				}
				if cfg.BufferSize > 4096 || cfg.BufferSize == 0 {
					cfg.BufferSize = 4096 // Reset sweeps structures sized by the buffer
				}
				if cfg.WindowSize > cfg.BufferSize {
					cfg.WindowSize = cfg.BufferSize
				}
				if cfg.BlockSize != 0 && cfg.BlockSize < 64 {
					cfg.BlockSize = 64
				}
				if cfg.ShrinkSize >= cfg.BufferSize {
					cfg.ShrinkSize = 0
				}
				x, err := newParserExec(cfg)
				if err != nil {
					st.class("config-rejected:" + kind)
					return
				}
				c, x, h1State := genAbandonCase(t, cfg, x)
				if len(c.Ops) == 0 {
					st.abort(kind)
					return
				}
				// the Reset call of the case comes on top: totals of 2^k-1, 2^k, 2^k+1
				c.ExtraResets = rapid.SampledFrom([]int{1 << 17, 1 << 16, 1 << 8, 3 << 16, 1 << 9}).Draw(t, "extraResets") -
					rapid.IntRange(0, 2).Draw(t, "extraResetsBelow")
				beginCase("C13", "manyresets-"+kind, func() any { return c })
				defer endCase()
				v := checkResetCase(c)
				endCase()
				if v.bad {
					recordFailure("C13", "manyresets-"+kind, c, v.msg)
					t.Fatalf("C13 violated (%s, %d Resets in between): %s", kind, c.ExtraResets, v.msg)
				}
				if v.dead || v.rejected {
					st.abort(kind)
					return
				}
				st.eval([]string{"kind:" + kind, "many-resets"}, h1State && v.h2Matches > 0, hashJSON(c), "manyresets-"+kind, func() any { return c })
			})
		})
	}
}

func TestC13(t *testing.T) {
	st := statsFor("C13")
	for _, kind := range kindsFromEnv(Kinds) {
		kind := kind
		t.Run(kind, func(t *testing.T) {
			rapid.Check(t, func(t *rapid.T) {
				decorrelate(t, kind)
				c, x, h1State := genResetCase(t, kind)
				if x == nil {
					st.class("config-rejected:" + kind)
					return
				}
				if len(c.Ops) == 0 {
					// the prior history already failed: not C13's business
					st.abort(kind)
					return
				}
				beginCase("C13", kind, func() any { return c })
				defer endCase() // also when rapid abandons the case half-way (fuzzing: input used up)
				v := checkResetCase(c)
				endCase()
				if v.bad {
					recordFailure("C13", kind, c, v.msg)
					t.Fatalf("C13 violated (%s): %s", kind, v.msg)
				}
				if v.dead || v.rejected {
					st.abort(kind)
					return
				}
				cl := []string{"kind:" + kind}
				if h1State {
					cl = append(cl, "prior-history-left-state")
				}
				if v.h2Matches > 0 {
					cl = append(cl, "matches-after-reset")
				}
				if !c.Ops[c.Split].Nil {
					cl = append(cl, "reset-with-data")
				}
				st.eval(cl, h1State && v.h2Matches > 0, hashJSON(c), kind, func() any { return c })
			})
		})
	}
}

// ---------------------------------------------------------------- schedules

// ConcCase is a set of independent instance histories that are executed
// concurrently, one goroutine each.
type ConcCase struct {
	Parsers  []ParserCase `json:"parsers"`
	Decoders []DecCase    `json:"decoders"`
	// Schedule: the instances are also run interleaved on one goroutine,
	// operation by operation: entry k names the parser instance (modulo their
	// number) that executes its next operation; the list is used cyclically
	// until all histories are finished.
	Schedule []int `json:"schedule,omitempty"`
}

// runInterleaved executes the parser histories on one goroutine, one operation
// at a time in the order of the schedule. An instance whose history is
// finished is dropped by its caller: the slices it was given are the caller's
// again and are overwritten.
func runInterleaved(c ConcCase) [][]any {
	n := len(c.Parsers)
	xs := make([]*parserExec, n)
	next := make([]int, n)
	res := make([][]any, n)
	left := 0
	for i, pc := range c.Parsers {
		x, err := newParserExec(pc.Cfg)
		if err != nil {
			res[i] = []any{"rejected"}
			continue
		}
		x.keepRes = true
		x.trackSlices = true
		xs[i] = x
		if len(pc.Ops) > 0 {
			left++
		} else {
			res[i] = x.results
		}
	}
	for k := 0; left > 0; k++ {
		i := k % n
		if len(c.Schedule) > 0 {
			i = ((c.Schedule[k%len(c.Schedule)] % n) + n) % n
		}
		if xs[i] == nil || next[i] >= len(c.Parsers[i].Ops) {
			// pick the next unfinished instance instead
			for d := 1; d <= n; d++ {
				j := (i + d) % n
				if xs[j] != nil && next[j] < len(c.Parsers[j].Ops) {
					i = j
					break
				}
			}
		}
		x := xs[i]
		x.step(c.Parsers[i].Ops[next[i]])
		next[i]++
		if next[i] == len(c.Parsers[i].Ops) {
			res[i] = x.results
			x.release()
			left--
		}
	}
	return res
}

func runParserResults(c ParserCase) []any {
	x, err := newParserExec(c.Cfg)
	if err != nil {
		return []any{"rejected"}
	}
	x.keepRes = true
	for _, op := range c.Ops {
		x.step(op)
	}
	return x.results
}

func runDecoderResult(c DecCase) []any {
	x, err := replayDecCase(c)
	if err != nil {
		return []any{"rejected"}
	}
	var got []byte
	if x.wr != nil {
		got = cloneBytes(x.wr.got)
	}
	return []any{string(x.all), string(got), len(x.findings), x.dead}
}

// checkConc runs all instances sequentially, then concurrently (rounds times),
// and compares. A data race is reported by the race detector (the binary is
// built with -race and GORACE=halt_on_error=1).
func checkConc(c ConcCase, rounds int) (string, bool) {
	seqP := make([][]any, len(c.Parsers))
	for i, pc := range c.Parsers {
		seqP[i] = runParserResults(pc)
	}
	seqD := make([][]any, len(c.Decoders))
	for i, dc := range c.Decoders {
		seqD[i] = runDecoderResult(dc)
	}
	if len(c.Parsers) > 1 {
		for i, r := range runInterleaved(c) {
			if !reflect.DeepEqual(seqP[i], r) {
				return fmt.Sprintf("parser instance %d (%s) returns different results when the operations of other instances are interleaved with its own (one goroutine): %s",
					i, c.Parsers[i].Cfg.Kind, firstDiff(seqP[i], r)), true
			}
		}
	}
	for r := 0; r < rounds; r++ {
		conP := make([][]any, len(c.Parsers))
		conD := make([][]any, len(c.Decoders))
		var wg sync.WaitGroup
		start := make(chan struct{})
		for i := range c.Parsers {
			wg.Add(1)
			go func(i int) {
				defer wg.Done()
				<-start
				conP[i] = runParserResults(c.Parsers[i])
			}(i)
		}
		for i := range c.Decoders {
			wg.Add(1)
			go func(i int) {
				defer wg.Done()
				<-start
				conD[i] = runDecoderResult(c.Decoders[i])
			}(i)
		}
		close(start)
		wg.Wait()
		for i := range seqP {
			if !reflect.DeepEqual(seqP[i], conP[i]) {
				return fmt.Sprintf("parser instance %d (%s) returns different results when other instances run concurrently: %s",
					i, c.Parsers[i].Cfg.Kind, firstDiff(seqP[i], conP[i])), true
			}
		}
		for i := range seqD {
			if !reflect.DeepEqual(seqD[i], conD[i]) {
				return fmt.Sprintf("decoder instance %d returns different results when other instances run concurrently", i), true
			}
		}
	}
	return "", false
}

// TestC13Conc: 4..16 goroutines, each with its own parser or decoder history.
// Run with the -race binary.
func TestC13Conc(t *testing.T) {
	st := statsFor("C13")
	rapid.Check(t, func(t *rapid.T) {
		var c ConcCase
		np := rapid.IntRange(3, 10).Draw(t, "nParsers")
		kinds := map[string]bool{}
		matches := 0
		// one kind gets at least three instances whose histories fill, parse
		// and shrink a lot: shared state of a kind shows only when two of its
		// instances are in the same code at the same time
		focus := rapid.SampledFrom(Kinds).Draw(t, "focusKind")
		for i := 0; i < np; i++ {
			kind := rapid.SampledFrom(Kinds).Draw(t, "kind")
			if i < 3 {
				kind = focus
			}
			// equal configurations in several goroutines have mass: shared
			// state would most likely be keyed by configuration
			var cfg PCfg
			if len(c.Parsers) > 0 && rapid.Bool().Draw(t, "sameCfg") {
				cfg = c.Parsers[len(c.Parsers)-1].Cfg
				kind = cfg.Kind
			} else {
				cfg = genPCfg(t, kind, 200)
			}
			x, err := newParserExec(cfg)
			if err != nil {
				continue
			}
			o := c13Opts()
			if i < 3 {
				o.fill, o.drain, o.shrink, o.tinyPct = 12, 10, 12, 0
			}
			genParserHistory(t, x, o)
			if x.dead {
				continue
			}
			kinds[kind] = true
			matches += x.nMatches
			c.Parsers = append(c.Parsers, x.Case())
		}
		if rapid.IntRange(0, 5).Draw(t, "largeInstances") == 0 {
			// instances whose buffers grow past 64 KiB (allocation
			// strategies differ up there), one of them starting from a
			// caller slice with spare capacity that it outgrows
			for i := rapid.IntRange(2, 3).Draw(t, "nLarge"); i > 0; i-- {
				kind := rapid.SampledFrom([]string{"HP", "DHP", "BUP", "BHP"}).Draw(t, "largeKind")
				cfg := PCfg{Kind: kind, BufferSize: rapid.SampledFrom([]int{0, 262144, 1 << 20, 150_000}).Draw(t, "largeBuf"),
					HashBits: 12, HashBits1: 12, HashBits2: 12}
				if kind == "DHP" {
					cfg.HashBits = 0
				} else {
					cfg.HashBits1, cfg.HashBits2 = 0, 0
				}
				x, err := newParserExec(cfg)
				if err != nil {
					continue
				}
				stream := largeStream(t, 200_000)
				pos := 0
				take := func(n int) []byte {
					if pos+n > len(stream) {
						pos = 0
					}
					pos += n
					return stream[pos-n : pos]
				}
				if rapid.Bool().Draw(t, "startWithReset") {
					n := rapid.IntRange(60_000, 90_000).Draw(t, "resetLen")
					x.step(POp{Op: "reset", Data: take(n), Cap: rapid.SampledFrom([]int{7, 100, 40_000}).Draw(t, "resetCapLarge")})
				}
				for k := rapid.IntRange(1, 4).Draw(t, "nChunks"); k > 0 && !x.dead; k-- {
					x.step(POp{Op: "write", Data: take(rapid.IntRange(1, 60_000).Draw(t, "chunk"))})
					for j := rapid.IntRange(0, 3).Draw(t, "nParse"); j > 0 && !x.dead; j-- {
						x.step(POp{Op: "parse"})
					}
					if rapid.Bool().Draw(t, "readAtLarge") {
						x.step(POp{Op: "readat", Off: genOffset(t, x), Len: rapid.IntRange(0, 5000).Draw(t, "raLen")})
					}
				}
				if !x.dead {
					c.Parsers = append(c.Parsers, x.Case())
				}
			}
		}
		nd := rapid.IntRange(1, 6).Draw(t, "nDecoders")
		for i := 0; i < nd; i++ {
			dc := DecCase{Vehicle: rapid.SampledFrom([]string{"dec", "dbuf"}).Draw(t, "vehicle"), Cfg: genDCfg(t)}
			x, err := newDecExec(dc)
			if err != nil {
				continue
			}
			genDecHistory(t, x, decOpts{vehicle: dc.Vehicle, maxOps: 20, hostile: 10, bigSizes: 30, reset: 1})
			x.finish()
			c.Decoders = append(c.Decoders, x.Case())
		}
		for k := rapid.IntRange(0, 40).Draw(t, "scheduleLen"); k > 0; k-- {
			c.Schedule = append(c.Schedule, rapid.IntRange(0, 15).Draw(t, "scheduleAt"))
		}
		if dir := os.Getenv("VERIF_FAIL_DIR"); dir != "" {
			// the race detector stops the process: keep the running case
			rec := failureRecord{Property: "C13", Sub: "conc", Message: "data race reported by the race detector while this set of instances ran concurrently"}
			rec.Case, _ = json.Marshal(c)
			b, _ := json.Marshal(rec)
			_ = os.WriteFile(filepath.Join(dir, "RUNNING-C13-conc.json"), b, 0o644)
		}
		msg, bad := checkConc(c, 3)
		if bad {
			recordFailure("C13", "conc", c, msg)
			t.Fatalf("C13 violated (concurrent instances): %s", msg)
		}
		cl := []string{"concurrent", fmt.Sprintf("goroutines:%d", (len(c.Parsers)+len(c.Decoders))/4*4)}
		st.eval(cl, len(c.Parsers) >= 3 && matches > 0 && len(kinds) >= 2, hashJSON(c), "conc", func() any {
			sample := map[string]any{"parsers": len(c.Parsers), "decoders": len(c.Decoders)}
			if len(c.Parsers) > 0 {
				sample["first_parser"] = c.Parsers[0]
			}
			return sample
		})
	})
	if dir := os.Getenv("VERIF_FAIL_DIR"); dir != "" {
		os.Remove(filepath.Join(dir, "RUNNING-C13-conc.json"))
	}
}

func init() {
	replayers["C13"] = func(raw json.RawMessage) (string, bool, error) {
		var probe struct {
			Parsers *json.RawMessage `json:"parsers"`
			H2enum  *json.RawMessage `json:"h2enum"`
		}
		_ = json.Unmarshal(raw, &probe)
		if probe.H2enum != nil {
			var c c13EnumCase
			if err := json.Unmarshal(raw, &c); err != nil {
				return "", false, err
			}
			return checkC13Enum(c)
		}
		if isWrapCase(raw) {
			var c WrapCase
			if err := json.Unmarshal(raw, &c); err != nil {
				return "", false, err
			}
			msg, bad, _, err := checkWrapReset(c)
			return msg, bad, err
		}
		if probe.Parsers != nil {
			var c ConcCase
			if err := json.Unmarshal(raw, &c); err != nil {
				return "", false, err
			}
			msg, bad := checkConc(c, 20)
			return msg, bad, nil
		}
		var c ResetCase
		if err := json.Unmarshal(raw, &c); err != nil {
			return "", false, err
		}
		v := checkResetCase(c)
		if v.rejected {
			return "", false, errConfigRejected
		}
		return v.msg, v.bad, nil
	}
}

// TestC13Wrap: a WrappedParser that was used on one reader and then Reset to
// another one emits the same block sequence as a new wrapped parser on that
// reader (fault-free readers; C08 owns faults).
func TestC13Wrap(t *testing.T) {
	st := statsFor("C13")
	for _, kind := range kindsFromEnv(Kinds) {
		kind := kind
		t.Run(kind, func(t *testing.T) {
			rapid.Check(t, func(t *rapid.T) {
				decorrelate(t, kind)
				c := genWrapCase(t, kind, 120, false, false, false)
				// the prior use may run into reader faults; the stream after
				// Reset is fault-free (C08 owns faults)
				c.Pre = genWrapPre(t, rapid.Bool().Draw(t, "preFaults"))
				pre := c.Pre.R.Data
				beginCase("C13", "wrap-"+kind, func() any { return c })
				defer endCase() // also when rapid abandons the case half-way (fuzzing: input used up)
				msg, bad, x, err := checkWrapReset(c)
				endCase()
				if err != nil {
					st.class("config-rejected:" + kind)
					return
				}
				if bad {
					recordFailure("C13", "wrap-"+kind, c, msg)
					t.Fatalf("C13 violated (wrap %s): %s", kind, msg)
				}
				if x.dead {
					st.abort("wrap-" + kind)
					return
				}
				cl := []string{"wrap-reset", "kind:" + kind}
				if x.nMatches > 0 {
					cl = append(cl, "wrap-reset:matches-after-reset")
				}
				st.eval(cl, c.Pre.Calls > 0 && len(pre) > 8 && x.nMatches > 0, hashJSON(c), "wrap-"+kind, func() any { return c })
			})
		})
	}
}

func checkWrapReset(c WrapCase) (msg string, bad bool, x *wrapExec, err error) {
	x, err = runWrap(c, false)
	if err != nil {
		return "", false, x, fmt.Errorf("%w: %v", errConfigRejected, err)
	}
	if m, b := x.first("C16"); b {
		return m, true, x, nil
	}
	if m, b := x.first("C13"); b {
		return "after Reset: " + m, true, x, nil
	}
	if m, b := x.first("C08"); b {
		return "after Reset: " + m, true, x, nil
	}
	fresh := c
	fresh.Pre = nil
	y, err := runWrap(fresh, false)
	if err != nil {
		return "", false, x, err
	}
	if x.dead || y.dead {
		return "", false, x, nil
	}
	if ok, why := sameBlocks(x.blocks, y.blocks); !ok {
		return "a WrappedParser that was used before Reset emits different blocks than a new one: " + why, true, x, nil
	}
	return "", false, x, nil
}

// ---------------------------------------------------------------- small-scope enumeration

// c13EnumCase is the replay form of one enumerated pair.
type c13EnumCase struct {
	Cfg PCfg  `json:"cfg"`
	H1  Bytes `json:"h1"`
	H2  Bytes `json:"h2enum"`
	// H1NTL: the calls that parse H1 carry NoTrailingLiterals (which leaves
	// search-structure entries in front of the parse position)
	H1NTL bool `json:"h1ntl,omitempty"`
	// Procs: GOMAXPROCS while the case runs (0: unchanged)
	Procs int `json:"procs,omitempty"`
}

type enumBlock struct {
	n    int
	seqs string
	lits string
}

func enumParseAll(p lz.Parser, data []byte, out []enumBlock) []enumBlock {
	return enumParseFlags(p, data, out, 0)
}

func enumParseFlags(p lz.Parser, data []byte, out []enumBlock, flags int) []enumBlock {
	out = out[:0]
	if _, err := p.Write(data); err != nil {
		return append(out, enumBlock{-1, "write: " + err.Error(), ""})
	}
	var blk lz.Block
	for i := 0; i < len(data)+2; i++ {
		n, err := p.Parse(&blk, flags)
		if err != nil {
			break
		}
		out = append(out, enumBlock{n, fmt.Sprint(blk.Sequences), string(blk.Literals)})
	}
	return out
}

func sameEnumBlocks(a, b []enumBlock) bool {
	if len(a) != len(b) {
		return false
	}
	for i := range a {
		if a[i] != b[i] {
			return false
		}
	}
	return true
}

// checkC13Enum: one parser, used for H1, Reset(nil), used for H2, against a new
// parser given H2.
func checkC13Enum(c c13EnumCase) (string, bool, error) {
	if c.Procs > 0 {
		defer runtime.GOMAXPROCS(runtime.GOMAXPROCS(c.Procs))
	}
	p, err := c.Cfg.LZ().NewParser()
	if err != nil {
		return "", false, errConfigRejected
	}
	h1flags := 0
	if c.H1NTL {
		h1flags = lz.NoTrailingLiterals
	}
	enumParseFlags(p, c.H1, nil, h1flags)
	if err := p.Reset(nil); err != nil {
		return "Reset(nil) failed: " + err.Error(), true, nil
	}
	got := enumParseAll(p, c.H2, nil)
	q, _ := c.Cfg.LZ().NewParser()
	want := enumParseAll(q, c.H2, nil)
	if !sameEnumBlocks(got, want) {
		return fmt.Sprintf("after %q and Reset the parser emits %v for %q; a new parser emits %v", []byte(c.H1), got, []byte(c.H2), want), true, nil
	}
	return "", false, nil
}

// TestC13Enum enumerates, for a few tiny configurations per kind, every pair
// (H1, H2) of strings over {0x00, 'a'} up to a length: the parser that parsed
// H1 and was Reset must emit for H2 what a new parser emits. 0x00 is the value
// of an empty hash slot, which is where leftovers hide.
func TestC13Enum(t *testing.T) {
	st := statsFor("C13")
	cnt := 0
	h1max, h2max := envInt("VERIF_C13_H1", 7), envInt("VERIF_C13_H2", 9)
	cfgs := []PCfg{
		{Kind: "HP", InputLen: 4, HashBits: 1, BufferSize: 64, WindowSize: 64, BlockSize: 64},
		{Kind: "HP", InputLen: 3, HashBits: 2, BufferSize: 64, WindowSize: 64, BlockSize: 5},
		{Kind: "BHP", InputLen: 4, HashBits: 1, BufferSize: 64, WindowSize: 64, BlockSize: 64},
		{Kind: "DHP", InputLen1: 3, InputLen2: 5, HashBits1: 1, HashBits2: 1, BufferSize: 64, WindowSize: 64, BlockSize: 64},
		{Kind: "DHP", InputLen1: 2, InputLen2: 3, HashBits1: 2, HashBits2: 1, BufferSize: 64, WindowSize: 64, BlockSize: 6},
		{Kind: "BDHP", InputLen1: 4, InputLen2: 6, HashBits1: 1, HashBits2: 1, BufferSize: 64, WindowSize: 64, BlockSize: 64},
		{Kind: "BUP", InputLen: 4, HashBits: 1, BucketSize: 2, BufferSize: 64, WindowSize: 64, BlockSize: 64},
		{Kind: "BUP", InputLen: 4, HashBits: 2, BucketSize: 3, BufferSize: 64, WindowSize: 64, BlockSize: 64},
		{Kind: "BUP", InputLen: 5, HashBits: 1, BucketSize: 4, BufferSize: 64, WindowSize: 64, BlockSize: 7},
	}
	saCfgs := []PCfg{
		{Kind: "GSAP", MinMatchLen: 2, BufferSize: 32, WindowSize: 32, BlockSize: 32},
		{Kind: "OSAP", MinMatchLen: 2, MaxMatchLen: 4, BufferSize: 32, WindowSize: 32, BlockSize: 32},
	}
	run := func(cfg PCfg, m1, m2 int, h1flags int) {
		// what a new parser emits for every H2
		var h2s [][]byte
		enumStrings(2, m2, func(s []byte) {
			b := make([]byte, len(s))
			for i, c := range s {
				if c == 1 {
					b[i] = 'a'
				}
			}
			h2s = append(h2s, b)
		})
		want := make([][]enumBlock, len(h2s))
		for i, h2 := range h2s {
			q, err := cfg.LZ().NewParser()
			if err != nil {
				t.Fatalf("config %v rejected: %v", cfg, err)
			}
			want[i] = enumParseAll(q, h2, nil)
		}
		p, _ := cfg.LZ().NewParser()
		var scratch, got []enumBlock
		failed := false
		enumStrings(2, m1, func(s []byte) {
			if failed {
				return
			}
			h1 := make([]byte, len(s))
			for i, c := range s {
				if c == 1 {
					h1[i] = 'a'
				}
			}
			for i, h2 := range h2s {
				cnt++
				_ = p.Reset(nil)
				scratch = enumParseFlags(p, h1, scratch, h1flags)
				_ = p.Reset(nil)
				got = enumParseAll(p, h2, got)
				if !sameEnumBlocks(got, want[i]) {
					c := c13EnumCase{Cfg: cfg, H1: cloneBytes(h1), H2: cloneBytes(h2), H1NTL: h1flags != 0}
					msg, bad, _ := checkC13Enum(c)
					if !bad {
						// the chain of earlier pairs left the state behind
						msg = fmt.Sprintf("in a chain of Reset-separated uses the parser emits %v for %q after %q; a new parser emits %v", got, h2, h1, want[i])
					}
					recordFailure("C13", "enum-"+cfg.Kind, c, msg)
					t.Errorf("C13 violated (enumeration, %s): %s", cfg.Kind, msg)
					failed = true
					return
				}
			}
		})
		st.class("enumerated:" + cfg.Kind)
	}
	for _, cfg := range cfgs {
		run(cfg, h1max, h2max, 0)
	}
	for _, cfg := range saCfgs {
		run(cfg, minInt(h1max, 5), minInt(h2max, 6), 0)
	}
	// H1 parsed with NoTrailingLiterals, also with tables that are large
	// compared to what was entered (where clearing may be done selectively)
	ntlCfgs := append([]PCfg(nil), cfgs...)
	ntlCfgs = append(ntlCfgs,
		PCfg{Kind: "HP", InputLen: 4, HashBits: 8, BufferSize: 64, WindowSize: 64, BlockSize: 64},
		PCfg{Kind: "HP", InputLen: 5, HashBits: 10, BufferSize: 64, WindowSize: 64, BlockSize: 5},
		PCfg{Kind: "BHP", InputLen: 4, HashBits: 8, BufferSize: 64, WindowSize: 64, BlockSize: 64},
		PCfg{Kind: "DHP", InputLen1: 3, InputLen2: 5, HashBits1: 8, HashBits2: 9, BufferSize: 64, WindowSize: 64, BlockSize: 64},
		PCfg{Kind: "BDHP", InputLen1: 3, InputLen2: 4, HashBits1: 9, HashBits2: 8, BufferSize: 64, WindowSize: 64, BlockSize: 64},
		PCfg{Kind: "BUP", InputLen: 4, HashBits: 8, BucketSize: 2, BufferSize: 64, WindowSize: 64, BlockSize: 64},
	)
	for _, cfg := range ntlCfgs {
		run(cfg, minInt(h1max, 6), minInt(h2max, 8), lz.NoTrailingLiterals)
	}
	st.evalN(cnt, "enumerated")
	st.note("enumerated all pairs (H1, H2) over {0x00,'a'} with |H1| <= %d, |H2| <= %d for %d tiny hash parser configurations (<= 5 / <= 6 for GSAP, OSAP); again with H1 parsed under NoTrailingLiterals (|H1| <= 6, |H2| <= 8) for %d configurations incl. hash tables of 256..1024 slots", h1max, h2max, len(cfgs), len(ntlCfgs))
	fmt.Printf("ENUM-DONE %d\n", cnt)
}
