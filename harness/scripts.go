package harness

import (
	"errors"
	"io"

	"pgregory.net/rapid"
)

// errScript is the error a scripted reader or writer injects.
var errScript = errors.New("harness: injected fault")

// readerFaultErrs are the errors a scripted reader injects: "E" the harness's
// own error value, "U" and "P" two errors of package io that a real source
// (a truncated gzip stream, a closed pipe) returns as its own.
var readerFaultErrs = map[string]error{"E": errScript, "U": io.ErrUnexpectedEOF, "P": io.ErrClosedPipe}

func isReaderFault(err error) bool {
	return err == errScript || err == io.ErrUnexpectedEOF || err == io.ErrClosedPipe
}

// errSpin is returned by scripted readers/writers when the code under test
// keeps calling them without any possible progress.
var errSpin = errors.New("harness: spin detected")

// REvent is one call of the scripted reader: hand out up to N bytes (never more
// than len(p) or than what is left) and then return Err: "" (nil), "EOF"
// (io.EOF, only honoured if the data is exhausted by this call, as a real
// stream reader would do) or a fault "E", "U", "P" (see readerFaultErrs; the
// reader recovers afterwards).
type REvent struct {
	N   int    `json:"n"`
	Err string `json:"err,omitempty"`
}

// ReaderScript is a byte string plus the behaviour of the first reads. After
// the events are used up the reader hands out everything it is asked for, and
// (0, io.EOF) at the end. It obeys the io.Reader contract.
type ReaderScript struct {
	Data   Bytes    `json:"data"`
	Events []REvent `json:"events,omitempty"`
	// Poll > 0: a polled source. Once the events are used up the reader
	// answers Poll times (0, nil) in front of every read that delivers, and
	// delivers at most Piece bytes (Piece 0: 16) per read: hundreds of empty
	// reads in one stream, never two deliveries without some in between,
	// which the io.Reader contract allows.
	Poll  int `json:"poll,omitempty"`
	Piece int `json:"piece,omitempty"`
	// Multi (parser-level ReadFrom only): the data comes through an
	// io.MultiReader of standard readers instead (events, Poll and Piece are
	// not used); see multiReader.
	Multi []MultiPart `json:"multi,omitempty"`
}

type scriptReader struct {
	data   []byte
	events []REvent
	pos    int // bytes handed out so far
	calls  int
	zeros  int // consecutive (0, nil) returns
	// log of the call results since the last mark
	lastErr   error
	spun      bool
	faultData int // number of faults that arrived together with data
	faults    int
	eofs      int
	produced  []error // the fault errors returned so far
	poll      int
	piece     int
	pollLeft  int
}

func newScriptReader(s ReaderScript) *scriptReader {
	r := &scriptReader{data: s.Data, events: s.Events, poll: s.Poll, piece: s.Piece, pollLeft: s.Poll}
	if r.poll > 0 && r.piece <= 0 {
		r.piece = 16
	}
	return r
}

func (r *scriptReader) Read(p []byte) (n int, err error) {
	r.calls++
	if r.calls > (4+r.poll)*len(r.data)+4*len(r.events)+10000 {
		r.spun = true
		r.lastErr = errSpin
		return 0, errSpin
	}
	if r.eofs > 0 && r.pos == len(r.data) {
		// A stream that has ended stays ended.
		r.eofs++
		r.lastErr = io.EOF
		return 0, io.EOF
	}
	want := len(p)
	var ev REvent
	scripted := false
	if len(r.events) == 0 && r.poll > 0 && r.pos < len(r.data) && len(p) > 0 {
		if r.pollLeft > 0 {
			r.pollLeft--
			r.lastErr = nil
			return 0, nil
		}
		r.pollLeft = r.poll
		if want > r.piece {
			want = r.piece
		}
	}
	if len(r.events) > 0 {
		ev = r.events[0]
		r.events = r.events[1:]
		scripted = true
		if ev.N < want {
			want = ev.N
		}
	}
	if rem := len(r.data) - r.pos; want > rem {
		want = rem
	}
	if want < 0 {
		want = 0
	}
	n = copy(p, r.data[r.pos:r.pos+want])
	r.pos += n
	switch {
	case scripted && readerFaultErrs[ev.Err] != nil:
		err = readerFaultErrs[ev.Err]
		r.produced = append(r.produced, err)
		r.faults++
		if n > 0 {
			r.faultData++
		}
	case r.pos == len(r.data) && (n == 0 || (scripted && ev.Err == "EOF")):
		// End of data: a read that delivers nothing at the end always
		// reports io.EOF; the last bytes come together with io.EOF only
		// if the script asks for it.
		err = io.EOF
		r.eofs++
	}
	if n == 0 && err == nil {
		r.zeros++
		if len(p) > 0 && r.zeros > 8 {
			// The script never asks for that many empty reads; be a
			// well-behaved reader and deliver.
			if r.pos < len(r.data) {
				p[0] = r.data[r.pos]
				r.pos++
				n = 1
			} else {
				err = io.EOF
			}
			r.zeros = 0
		}
	} else {
		r.zeros = 0
	}
	r.lastErr = err
	return n, err
}

// genReaderScript draws a reader script over data. faults allows "E" events.
func genReaderScript(t *rapid.T, label string, data []byte, faults bool) ReaderScript {
	s := ReaderScript{Data: data}
	nev := 0
	switch weighted(t, label+".shape", 2, 3, 2) {
	case 0:
		nev = 0 // one whole read
	case 1:
		nev = rapid.IntRange(1, 6).Draw(t, label+".nev")
	default:
		nev = rapid.IntRange(1, 24).Draw(t, label+".nevMany")
	}
	zeros := 0
	for i := 0; i < nev; i++ {
		var e REvent
		switch weighted(t, label+".size", 3, 3, 1, 2) {
		case 0:
			e.N = 1
		case 1:
			e.N = rapid.IntRange(1, 16).Draw(t, label+".n")
		case 2:
			e.N = 0
		default:
			e.N = rapid.IntRange(1, maxInt(len(data), 1)).Draw(t, label+".nBig")
		}
		fw := 0
		if faults {
			fw = 2
		}
		switch weighted(t, label+".err", 8, 2, fw) {
		case 1:
			e.Err = "EOF"
		case 2:
			e.Err = rapid.SampledFrom([]string{"E", "E", "U", "P"}).Draw(t, label+".errKind")
		}
		if e.N == 0 && e.Err == "" {
			zeros++
			if zeros > 3 {
				e.N = 1
				zeros = 0
			}
		} else {
			zeros = 0
		}
		s.Events = append(s.Events, e)
	}
	if rapid.IntRange(0, 11).Draw(t, label+".polled") == 0 {
		s.Poll = rapid.IntRange(1, 2).Draw(t, label+".poll")
		s.Piece = rapid.SampledFrom([]int{1, 2, 3, 16, 256}).Draw(t, label+".piece")
	}
	return s
}
