package harness

import (
	"encoding/json"
	"fmt"
	"math"
	"testing"

	"github.com/ulikunitz/lz"
	"pgregory.net/rapid"
)

// ---------------------------------------------------------------- C16 (2): robustness

var propC16 = parserProp{
	prop:   "C16",
	maxBuf: 300,
	opts: func(kind string) histOpts {
		o := defaultHistOpts()
		o.parseNil = 3
		o.readAt, o.byteAt = 2, 2
		o.overReset = true
		o.faults = true
		o.resetDat = 2
		return o
	},
	classify: func(x *parserExec) ([]string, bool) {
		var cl []string
		c := x.cfg
		boundary := c.BufferSize == 1 || c.WindowSize == 1 || c.BlockSize == 1 || c.ShrinkSize == x.cc.BufferSize ||
			c.BufferSize == 0 || c.WindowSize == 0 || c.BlockSize == 0 || c.ShrinkSize == 0 ||
			(c.Kind == "OSAP" && c.MinMatchLen == c.MaxMatchLen) || c.HashBits == 0 || c.BlockSize > x.cc.BufferSize ||
			x.cc.BufferSize < 8
		if boundary {
			cl = append(cl, "boundary-config")
		}
		if c.ShrinkSize == x.cc.BufferSize {
			cl = append(cl, "ShrinkSize==BufferSize")
		}
		if x.fills >= 1 {
			cl = append(cl, "refilled")
		}
		return cl, boundary && x.fills >= 1
	},
}

func TestC16(t *testing.T) { propC16.run(t, Kinds) }

// TestC16Huge: the histories of C16 on "no window limit" configurations (see
// hugeWindowTweak), with many NoTrailingLiterals calls: the distance
// arithmetic of the parsers at the top of its range.
var propC16Huge = func() parserProp {
	pp := propC16
	pp.tweak = func(t *rapid.T, c *PCfg) {
		hugeWindowTweak(t, c)
		if rapid.Bool().Draw(t, "hwTinyTables") {
			// tables of 2 to 8 slots: hardly any candidate survives, long
			// stretches of literals also in periodic data
			switch c.Kind {
			case "HP", "BHP", "BUP":
				c.HashBits = rapid.IntRange(1, 3).Draw(t, "hwTinyBits")
				if c.InputLen > 4 {
					c.InputLen = 3
				}
			case "DHP", "BDHP":
				c.HashBits1, c.HashBits2 = rapid.IntRange(1, 3).Draw(t, "hwTinyBits1"), rapid.IntRange(1, 3).Draw(t, "hwTinyBits2")
			}
		}
	}
	pp.opts = func(kind string) histOpts {
		o := propC16.opts(kind)
		o.ntlAllPct = 20
		o.ntl = 50
		o.ntlPair = 6
		o.uniformPct = 40
		o.tinyPct = 0
		return o
	}
	return pp
}()

func TestC16Huge(t *testing.T) { propC16Huge.run(t, Kinds) }

var propC16Wrap = wrapProp{prop: "C16", stats: "C16", maxBuf: 120, faults: true, nilCalls: true}

func TestC16Wrap(t *testing.T) { propC16Wrap.run(t, Kinds) }

// ---------------------------------------------------------------- C16 (1): acceptance

var c16Pool = []int{0, 1, 2, 3, 7, 8, 9, 12, 16, 17, 18, 23, 24, 25, 128, 129, -1,
	math.MaxInt32, math.MaxInt32 + 1, 1<<32 - 8, 1<<32 - 7, 1 << 32, math.MaxInt64, math.MinInt64}

func genPoolInt(t *rapid.T, label string) int {
	if rapid.IntRange(0, 4).Draw(t, label+"?") == 0 {
		return rapid.IntRange(-2, 40).Draw(t, label+"small")
	}
	return rapid.SampledFrom(c16Pool).Draw(t, label)
}

// tableEntries estimates the hash table entries NewParser would allocate for
// the defaults-completed configuration (0 for the suffix array parsers).
func tableEntries(d PCfg) float64 {
	pow := func(b int) float64 {
		if b < 0 || b > 62 {
			return 0
		}
		return float64(uint64(1) << uint(b))
	}
	switch d.Kind {
	case "HP", "BHP":
		return pow(d.HashBits)
	case "DHP", "BDHP":
		return pow(d.HashBits1) + pow(d.HashBits2)
	case "BUP":
		return pow(d.HashBits) * float64(maxInt(d.BucketSize, 1))
	}
	return 0
}

const maxTableEntries = 1 << 22

type acceptCase struct {
	Cfg PCfg `json:"cfg"`
}

// checkAccept decides C16's first sentence for one configuration.
func checkAccept(c PCfg) (msg string, bad bool, accepted bool, skipped bool) {
	var verr error
	var panicked any
	func() {
		defer func() { panicked = recover() }()
		clone := c.LZ().Clone()
		clone.SetDefaults()
		verr = clone.Verify()
	}()
	if panicked != nil {
		return fmt.Sprintf("SetDefaults/Verify panicked: %v", panicked), true, false, false
	}
	if verr == nil && tableEntries(c.Completed()) > maxTableEntries {
		return "", false, true, true
	}
	var p lz.Parser
	var err error
	func() {
		defer func() { panicked = recover() }()
		p, err = c.LZ().NewParser()
	}()
	if panicked != nil {
		return fmt.Sprintf("NewParser panicked: %v", panicked), true, false, false
	}
	if (err == nil) != (verr == nil) {
		return fmt.Sprintf("NewParser error = %v, but Verify of the defaults-completed configuration = %v", err, verr), true, false, false
	}
	if err == nil && p == nil {
		return "NewParser returned nil, nil", true, false, false
	}
	if err == nil {
		// a parser of an accepted configuration is put to use: a short text
		// with repeats is written (in pieces if the buffer is small) and
		// parsed, with and without the flag; nothing may panic
		func() {
			defer func() { panicked = recover() }()
			text := []byte("abcabcabcabc abcabc\x00\x00\x00\x00\x00\x00 the quick brown fox, the quick brown fox")
			var blk lz.Block
			for round, pos := 0, 0; round < 40 && pos < len(text); round++ {
				n, _ := p.Write(text[pos:])
				pos += n
				for k := 0; k < 100; k++ {
					if _, err := p.Parse(&blk, k&1); err != nil {
						break
					}
				}
				p.Shrink()
			}
		}()
		if panicked != nil {
			return fmt.Sprintf("the configuration is accepted (Verify of the defaults-completed configuration and NewParser succeed), the parser panics in use: %v", panicked), true, true, false
		}
	}
	return "", false, err == nil, false
}

func nonZeroFields(c PCfg) int {
	n := 0
	for _, v := range []int{c.ShrinkSize, c.BufferSize, c.WindowSize, c.BlockSize, c.InputLen, c.HashBits,
		c.InputLen1, c.HashBits1, c.InputLen2, c.HashBits2, c.MinMatchLen, c.MaxMatchLen, c.BucketSize} {
		if v != 0 {
			n++
		}
	}
	return n
}

func genPoolCfg(t *rapid.T, kind string) PCfg {
	c := PCfg{Kind: kind}
	// Most fields valid, a few from the pool: otherwise nearly every draw
	// is rejected for the first field already.
	valid := genPCfg(t, kind, 64)
	c = valid
	fields := []*int{&c.ShrinkSize, &c.BufferSize, &c.WindowSize, &c.BlockSize}
	switch kind {
	case "HP", "BHP":
		fields = append(fields, &c.InputLen, &c.HashBits)
	case "BUP":
		fields = append(fields, &c.InputLen, &c.HashBits, &c.BucketSize)
	case "DHP", "BDHP":
		fields = append(fields, &c.InputLen1, &c.HashBits1, &c.InputLen2, &c.HashBits2)
	case "GSAP":
		fields = append(fields, &c.MinMatchLen)
	case "OSAP":
		fields = append(fields, &c.MinMatchLen, &c.MaxMatchLen)
	}
	k := rapid.IntRange(0, 3).Draw(t, "nPool")
	if rapid.IntRange(0, 9).Draw(t, "allPool") == 0 {
		k = len(fields)
	}
	for i := 0; i < k; i++ {
		f := fields[rapid.IntRange(0, len(fields)-1).Draw(t, "field")]
		*f = genPoolInt(t, "v")
	}
	if kind == "OSAP" {
		c.Cost = rapid.SampledFrom([]string{"XZCost", "", "xzcost", "other"}).Draw(t, "cost")
	}
	return c
}

func TestC16Accept(t *testing.T) {
	st := statsFor("C16")
	for _, kind := range kindsFromEnv(Kinds) {
		kind := kind
		t.Run(kind, func(t *testing.T) {
			rapid.Check(t, func(t *rapid.T) {
				decorrelate(t, kind)
				c := genPoolCfg(t, kind)
				msg, bad, acc, skipped := checkAccept(c)
				if bad {
					recordFailure("C16", "accept-"+kind, acceptCase{c}, msg)
					t.Fatalf("C16 violated (accept %s): %s", kind, msg)
				}
				cl := []string{"accept", "kind:" + kind}
				switch {
				case skipped:
					cl = append(cl, "accept:skipped-memory")
				case acc:
					cl = append(cl, "accept:accepted")
				default:
					cl = append(cl, "accept:rejected")
				}
				st.eval(cl, nonZeroFields(c) >= 2, hashJSON(c), "accept-"+kind, func() any { return acceptCase{c} })
			})
		})
	}
}

// TestC16Enum enumerates all pool combinations of the field groups that
// interact, the other fields being zero (defaults).
func TestC16Enum(t *testing.T) {
	st := statsFor("C16")
	n := 0
	try := func(c PCfg) {
		n++
		msg, bad, acc, skipped := checkAccept(c)
		if bad {
			recordFailure("C16", "enum-"+c.Kind, acceptCase{c}, msg)
			t.Errorf("C16 violated (enum %s): %s", c.Kind, msg)
		}
		cl := []string{"enum"}
		switch {
		case skipped:
			cl = append(cl, "accept:skipped-memory")
		case acc:
			cl = append(cl, "accept:accepted")
		default:
			cl = append(cl, "accept:rejected")
		}
		st.eval(cl, nonZeroFields(c) >= 2, hashJSON(c), "enum-"+c.Kind, func() any { return acceptCase{c} })
	}
	for _, kind := range Kinds {
		for _, a := range c16Pool {
			for _, b := range c16Pool {
				try(PCfg{Kind: kind, ShrinkSize: a, BufferSize: b})
				try(PCfg{Kind: kind, WindowSize: a, BufferSize: b})
				try(PCfg{Kind: kind, WindowSize: a, BlockSize: b})
				switch kind {
				case "HP", "BHP":
					try(PCfg{Kind: kind, InputLen: a, HashBits: b})
				case "BUP":
					try(PCfg{Kind: kind, InputLen: a, HashBits: b})
					try(PCfg{Kind: kind, InputLen: 2, HashBits: a, BucketSize: b})
				case "DHP", "BDHP":
					try(PCfg{Kind: kind, InputLen1: a, InputLen2: b})
					try(PCfg{Kind: kind, InputLen1: a, HashBits1: b})
					try(PCfg{Kind: kind, InputLen2: a, HashBits2: b})
				case "GSAP":
					try(PCfg{Kind: kind, MinMatchLen: a, WindowSize: b})
				case "OSAP":
					try(PCfg{Kind: kind, MinMatchLen: a, MaxMatchLen: b})
					for _, w := range []int{0, 1, 2, 8} {
						try(PCfg{Kind: kind, MinMatchLen: a, MaxMatchLen: b, WindowSize: w, Cost: "XZCost"})
					}
				}
			}
		}
	}
	fmt.Printf("ENUM-DONE %d\n", n)
}

func init() {
	hist := propC16.replayer()
	wrapped := wrapReplayer("C16", false)
	replayers["C16"] = func(raw json.RawMessage) (string, bool, error) {
		var probe struct {
			Ops *[]any `json:"ops"`
			R   *any   `json:"r"`
		}
		_ = json.Unmarshal(raw, &probe)
		switch {
		case probe.Ops != nil:
			return hist(raw)
		case probe.R != nil:
			return wrapped(raw)
		}
		var ac acceptCase
		if err := json.Unmarshal(raw, &ac); err != nil {
			return "", false, err
		}
		msg, bad, _, _ := checkAccept(ac.Cfg)
		return msg, bad, nil
	}
}
