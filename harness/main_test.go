package harness

import (
	"encoding/json"
	"errors"
	"flag"
	"fmt"
	"os"
	"strings"
	"testing"

	"pgregory.net/rapid"
)

func TestMain(m *testing.M) {
	flag.Parse()
	startWatchdog()
	code := m.Run()
	writeStats()
	os.Exit(code)
}

// TestReplay re-executes the files listed in $VERIF_REPLAY_FILES (separated by
// ':') and prints one line per file: "REPLAY <file> PASS" or
// "REPLAY <file> FAIL <message>".
func TestReplay(t *testing.T) {
	files := os.Getenv("VERIF_REPLAY_FILES")
	if files == "" {
		t.Skip("no replay files")
	}
	for _, f := range strings.Split(files, ":") {
		if f == "" {
			continue
		}
		b, err := os.ReadFile(f)
		if err != nil {
			fmt.Printf("REPLAY %s ERROR %v\n", f, err)
			t.Fail()
			continue
		}
		var rec failureRecord
		if err := json.Unmarshal(b, &rec); err != nil {
			fmt.Printf("REPLAY %s ERROR %v\n", f, err)
			t.Fail()
			continue
		}
		prop := rec.Property
		if p := os.Getenv("VERIF_REPLAY_PROP"); p != "" {
			prop = p
		}
		fn := replayers[prop]
		if fn == nil {
			fmt.Printf("REPLAY %s ERROR no replayer for %s\n", f, prop)
			t.Fail()
			continue
		}
		beginCase(prop, rec.Sub, func() any { return rec.Case })
		defer endCase() // also when rapid abandons the case half-way (fuzzing: input used up)
		msg, failed, err := fn(rec.Case)
		endCase()
		switch {
		case errors.Is(err, errConfigRejected):
			// The stored configuration is no longer accepted by
			// NewParser: the history cannot happen any more.
			fmt.Printf("REPLAY %s PASS (%v)\n", f, err)
		case err != nil:
			fmt.Printf("REPLAY %s ERROR %v\n", f, err)
			t.Fail()
		case failed:
			fmt.Printf("REPLAY %s FAIL %s\n", f, strings.ReplaceAll(msg, "\n", " "))
		default:
			fmt.Printf("REPLAY %s PASS\n", f)
		}
	}
}

// decorrelate: the subtests of the parser kinds run in one process with one
// rapid seed, so their first draws (the buffer geometry, the text) would be
// the same for every kind. A kind-dependent number of values is drawn and
// thrown away first, which shifts the rest of the random stream.
func decorrelate(t *rapid.T, kind string) {
	k := 0
	for i, c := range []byte(kind) {
		k += (i + 1) * int(c)
	}
	for k %= 11; k > 0; k-- {
		rapid.Uint64().Draw(t, "decorrelate")
	}
}

// kindsFromEnv lets the driver restrict a run to some parser kinds.
func kindsFromEnv(def []string) []string {
	if v := os.Getenv("VERIF_KINDS"); v != "" {
		return strings.Split(v, ",")
	}
	return def
}

// parserProp is the common body of the properties decided on parser
// histories: draw a configuration and a history, execute, judge the findings
// of the one property, classify.
type parserProp struct {
	prop     string
	maxBuf   int
	opts     func(kind string) histOpts
	setup    func(x *parserExec)
	tweak    func(t *rapid.T, c *PCfg)
	after    func(x *parserExec) // extra oracles on the finished history
	classify func(x *parserExec) (classes []string, nontrivial bool)
	// fuzzKinds: kinds drawn by the native fuzz target
	fuzzKinds []string
}

func (pp parserProp) run(t *testing.T, kinds []string) {
	st := statsFor(pp.prop)
	for _, kind := range kindsFromEnv(kinds) {
		kind := kind
		t.Run(kind, func(t *testing.T) {
			rapid.Check(t, pp.body(kind, st))
		})
	}
}

// body is the rapid property for one parser kind ("" = the kind is drawn).
func (pp parserProp) body(fixedKind string, st *propStats) func(t *rapid.T) {
	return func(t *rapid.T) {
		kind := fixedKind
		if kind == "" {
			kind = rapid.SampledFrom(pp.fuzzKinds).Draw(t, "kind")
		} else {
			decorrelate(t, kind)
		}
		cfg := genPCfg(t, kind, pp.maxBuf)
		if pp.tweak != nil {
			pp.tweak(t, &cfg)
		}
		x, err := newParserExec(cfg)
		if err != nil {
			st.class("config-rejected:" + kind)
			return
		}
		if pp.setup != nil {
			pp.setup(x)
		}
		beginCase(pp.prop, kind, func() any { return x.Case() })
		defer endCase() // also when rapid abandons the case half-way (fuzzing: input used up)
		genParserHistory(t, x, pp.opts(kind))
		if pp.after != nil && !x.dead {
			pp.after(x)
		}
		endCase()
		pp.judge(t, st, kind, x)
	}
}

func (pp parserProp) judge(t *rapid.T, st *propStats, kind string, x *parserExec) {
	if msg, bad := x.first(pp.prop); bad {
		recordFailure(pp.prop, kind, x.Case(), msg)
		t.Fatalf("%s violated (%s): %s", pp.prop, kind, msg)
	}
	if x.dead {
		why := kind
		if len(x.findings) > 0 {
			why += ":" + x.findings[0].prop
		}
		st.abort(why)
		return
	}
	classes, nt := pp.classify(x)
	classes = append(classes, "kind:"+kind)
	c := x.Case()
	st.eval(classes, nt, hashJSON(c), kind, func() any { return c })
}

func (pp parserProp) replayer() replayFn {
	return func(raw json.RawMessage) (string, bool, error) {
		var c ParserCase
		if err := json.Unmarshal(raw, &c); err != nil {
			return "", false, err
		}
		x, err := replayParserCase(c, pp.setup)
		if err != nil {
			return "", false, fmt.Errorf("%w: %v", errConfigRejected, err)
		}
		if pp.after != nil && !x.dead {
			pp.after(x)
		}
		msg, bad := x.first(pp.prop)
		return msg, bad, nil
	}
}
