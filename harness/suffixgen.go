package harness

import (
	"pgregory.net/rapid"
)

// Structured text families for the suffix sorter (C09, C10): nested
// periodicities and long repeats drive the B*-substring introsort/heapsort and
// the rank-sort budget/copy paths.

func fibWord(n int) []byte {
	a, b := []byte{0}, []byte{0, 1}
	for len(b) < n {
		a, b = b, append(append([]byte{}, b...), a...)
	}
	return b[:n]
}

func thueMorse(n int) []byte {
	out := make([]byte, n)
	for i := range out {
		x, c := i, 0
		for x > 0 {
			c ^= x & 1
			x >>= 1
		}
		out[i] = byte(c)
	}
	return out
}

func periodDoubling(n int) []byte {
	// fixed point of 0 -> 01, 1 -> 00
	out := make([]byte, n)
	for i := range out {
		k := 0
		for x := i + 1; x&1 == 0; x >>= 1 {
			k++
		}
		out[i] = byte(k & 1)
	}
	return out
}

func deBruijn(k, order int) []byte {
	// standard Lyndon-word construction
	a := make([]int, k*order+1)
	var seq []byte
	var db func(t, p int)
	db = func(t, p int) {
		if t > order {
			if order%p == 0 {
				for _, v := range a[1 : p+1] {
					seq = append(seq, byte(v))
				}
			}
			return
		}
		a[t] = a[t-p]
		db(t+1, p)
		for j := a[t-p] + 1; j < k; j++ {
			a[t] = j
			db(t+1, t)
		}
	}
	db(1, 1)
	return seq
}

// genSuffixText draws a text of length 0..maxLen from the families.
func genSuffixText(t *rapid.T, maxLen int) (text []byte, family string) {
	n := 0
	switch weighted(t, "lenKind", 1, 3, 4, 2) {
	case 0:
		n = rapid.IntRange(0, 3).Draw(t, "lenTiny")
	case 1:
		n = rapid.IntRange(4, minInt(64, maxLen)).Draw(t, "lenSmall")
	case 2:
		n = minInt(maxLen, 64+rapid.IntRange(0, 536).Draw(t, "lenMid"))
	default:
		n = minInt(maxLen, 600+rapid.IntRange(0, maxInt(0, maxLen-600)).Draw(t, "lenBig"))
	}
	if n > maxLen {
		n = maxLen
	}
	fam := weighted(t, "family", 3, 2, 2, 2, 2, 3, 3, 3, 3, 3, 3, 4, 3, 9, 4, 8)
	var out []byte
	switch fam {
	case 0:
		family = "uniform"
		k := rapid.SampledFrom([]int{2, 1, 3, 4, 256}).Draw(t, "alpha")
		out = make([]byte, n)
		for i := range out {
			out[i] = byte(rapid.IntRange(0, k-1).Draw(t, "u"))
		}
	case 1:
		family = "fibonacci"
		out = fibWord(n + 2)[rapid.IntRange(0, 2).Draw(t, "shift"):][:n]
	case 2:
		family = "thue-morse"
		out = thueMorse(n)
	case 3:
		family = "period-doubling"
		out = periodDoubling(n)
	case 4:
		family = "de-bruijn"
		k := rapid.IntRange(2, 3).Draw(t, "dbk")
		ord := rapid.IntRange(2, 8).Draw(t, "dbord")
		s := deBruijn(k, ord)
		for len(out) < n {
			out = append(out, s...)
		}
		out = out[:n]
	case 5:
		family = "(a^k b)^m with jitter"
		k := rapid.IntRange(1, 12).Draw(t, "k")
		for len(out) < n {
			kk := k
			if rapid.IntRange(0, 5).Draw(t, "jit") == 0 {
				kk += rapid.IntRange(-1, 1).Draw(t, "jitd")
			}
			for i := 0; i < kk; i++ {
				out = append(out, 0)
			}
			out = append(out, 1)
		}
		out = out[:n]
	case 6:
		family = "runs of two letters"
		c := byte(0)
		for len(out) < n {
			r := 1 + genSize(t, "run", 40, 1, 2, 7, 8)
			for i := 0; i < r; i++ {
				out = append(out, c)
			}
			c ^= 1
		}
		out = out[:n]
	case 7:
		family = "word concatenation"
		nw := rapid.IntRange(2, 4).Draw(t, "nw")
		words := make([][]byte, nw)
		for i := range words {
			wl := rapid.IntRange(1, 9).Draw(t, "wl")
			words[i] = make([]byte, wl)
			for j := range words[i] {
				words[i][j] = byte(rapid.IntRange(0, 2).Draw(t, "wb"))
			}
		}
		for len(out) < n {
			out = append(out, words[rapid.IntRange(0, nw-1).Draw(t, "w")]...)
		}
		out = out[:n]
	case 8:
		family = "squares and cubes"
		for len(out) < n {
			wl := rapid.IntRange(1, 16).Draw(t, "sl")
			w := make([]byte, wl)
			for j := range w {
				w[j] = byte(rapid.IntRange(0, 1).Draw(t, "sb"))
			}
			rep := rapid.IntRange(2, 3).Draw(t, "rep")
			for r := 0; r < rep; r++ {
				out = append(out, w...)
			}
		}
		out = out[:n]
	case 9:
		family = "periodic with point mutations"
		pl := rapid.IntRange(1, 24).Draw(t, "pl")
		unit := make([]byte, pl)
		for j := range unit {
			unit[j] = byte(rapid.IntRange(0, 2).Draw(t, "pb"))
		}
		out = make([]byte, n)
		for i := range out {
			out[i] = unit[i%pl]
		}
		nm := rapid.IntRange(0, 4).Draw(t, "nmut")
		for m := 0; m < nm && n > 0; m++ {
			out[rapid.IntRange(0, n-1).Draw(t, "mutAt")] ^= 1
		}
	case 11:
		// A block of many distinct units, each starting a B* suffix, repeated
		// 2..4 times (optionally with a small gap or a point mutation): the
		// rank groups {copy 1, copy 2, ...} can only be separated at the end
		// of the block, which needs many refinement levels and exhausts the
		// budget of the rank sort on a few hundred bytes.
		family = "repeated block of distinct units"
		copies := rapid.IntRange(2, 4).Draw(t, "copies")
		ulen := rapid.IntRange(2, 4).Draw(t, "unitLen")
		k := n / (copies * ulen)
		if k < 1 {
			k = 1
		}
		if k > 250 && ulen < 4 {
			k = 250
		}
		order := rapid.IntRange(0, 2).Draw(t, "order") // rising, falling, shuffled
		hi := rapid.SampledFrom([]byte{0xff, 0xfe, 'z'}).Draw(t, "hi")
		lo := rapid.SampledFrom([]byte{0x00, 0x01, 'a'}).Draw(t, "lo")
		ids := make([]int, k)
		for i := range ids {
			switch order {
			case 0:
				ids[i] = i
			case 1:
				ids[i] = k - 1 - i
			default:
				ids[i] = (i*7919 + 13) % k
			}
		}
		var x []byte
		for _, id := range ids {
			switch ulen {
			case 2:
				x = append(x, byte(1+id%250), hi)
			case 3:
				x = append(x, byte(1+id%250), hi, lo)
			default:
				x = append(x, byte(1+id%250), byte(1+id/250), hi, lo)
			}
		}
		for c := 0; c < copies; c++ {
			out = append(out, x...)
			if c+1 < copies && rapid.IntRange(0, 3).Draw(t, "gap") == 0 {
				out = append(out, byte(rapid.IntRange(0, 255).Draw(t, "gapByte")))
			}
		}
		if rapid.IntRange(0, 3).Draw(t, "mutate") == 0 && len(out) > 0 {
			out[rapid.IntRange(0, len(out)-1).Draw(t, "mutAt")] ^= 1
		}
	case 12:
		// A random word over a small alphabet, a few dozen to a few hundred
		// bytes long, repeated many times and cut off somewhere: every B*
		// substring occurs once per copy, the groups of equal substrings are
		// tandem repeats of the rank sort and are only separated at the end of
		// the text, which exhausts the budget on a few hundred bytes.
		family = "random word repeated many times"
		wl := rapid.IntRange(8, 200).Draw(t, "wordLen")
		k := rapid.IntRange(2, 3).Draw(t, "wordAlpha")
		w := make([]byte, wl)
		for j := range w {
			w[j] = byte(rapid.IntRange(0, k-1).Draw(t, "wordByte"))
		}
		reps := rapid.IntRange(3, 12).Draw(t, "reps")
		start := rapid.IntRange(0, wl-1).Draw(t, "wordStart")
		total := minInt(maxInt(n, 1), reps*wl)
		if n > 64 && total < n && rapid.Bool().Draw(t, "fillUp") {
			total = n
		}
		for i := 0; i < total; i++ {
			out = append(out, w[(start+i)%wl])
		}
		if rapid.IntRange(0, 4).Draw(t, "mutate") == 0 && len(out) > 0 {
			out[rapid.IntRange(0, len(out)-1).Draw(t, "mutAt")] ^= 1
		}
	case 13:
		// A word that contains one to three periodic stretches (unit of 2..6
		// bytes repeated 6..32 times) between random bytes, repeated 4..8
		// times from a random rotation and cut off near a multiple of its
		// length. The periodic stretches are tandem repeats of the rank sort,
		// the repetition of the whole word exhausts its budget while they
		// are being processed (the only family found to reach trPartialCopy:
		// about 2 texts in 1000).
		family = "word with periodic stretches repeated"
		k := rapid.IntRange(2, 3).Draw(t, "alpha")
		rnd := func(label string, m int) []byte {
			o := make([]byte, m)
			for i := range o {
				o[i] = byte(rapid.IntRange(0, k-1).Draw(t, label))
			}
			return o
		}
		var w []byte
		for p := rapid.IntRange(1, 3).Draw(t, "nparts"); p > 0; p-- {
			w = append(w, rnd("x", rapid.IntRange(0, 30).Draw(t, "xl"))...)
			u := rnd("u", rapid.IntRange(2, 6).Draw(t, "ul"))
			for j := rapid.IntRange(6, 32).Draw(t, "uk"); j > 0; j-- {
				w = append(w, u...)
			}
		}
		w = append(w, rnd("y", rapid.IntRange(0, 30).Draw(t, "yl"))...)
		reps := rapid.IntRange(4, 8).Draw(t, "reps")
		rot := rapid.IntRange(0, len(w)-1).Draw(t, "rot")
		total := len(w)*reps - rapid.IntRange(0, 3).Draw(t, "cut")
		if total > maxLen {
			total = maxLen
		}
		for i := 0; i < total; i++ {
			out = append(out, w[(rot+i)%len(w)])
		}
	case 14:
		// Long random strings over two or three letters: the groups of the
		// rank sort are large and irregular enough to use up the depth limit
		// of its quicksort, so that trHeapSort runs (a quarter of the binary
		// strings of 2000 bytes; never below 250 bytes or with 4+ letters).
		family = "long random binary or ternary"
		k := rapid.SampledFrom([]int{2, 2, 2, 3}).Draw(t, "alpha")
		if maxLen >= 2000 {
			n = maxLen - rapid.IntRange(0, maxLen-2000).Draw(t, "lenLongBelowMax")
		} else if maxLen >= 1000 {
			n = maxLen
		}
		// The letters are a pure function of one drawn 64-bit value
		// (splitmix64): rapid's own integer generators favour small values,
		// which would make the string anything but uniform.
		out = make([]byte, n)
		x := rapid.Uint64().Draw(t, "seed")
		for i := range out {
			x += 0x9e3779b97f4a7c15
			z := x
			z = (z ^ (z >> 30)) * 0xbf58476d1ce4e5b9
			z = (z ^ (z >> 27)) * 0x94d049bb133111eb
			z ^= z >> 31
			out[i] = byte((z >> 33) % uint64(k))
		}
	case 15:
		// Copies of an ascending chain "AzBzCz..." (every letter followed
		// by one filler that is larger than all of them): each group of
		// the rank sort has to walk through all later, still unsorted
		// groups, which uses up the budget of trsort. Behind each copy a
		// few runs "MzMzMz" (tandem repeats) with single letters at their
		// ends, then a byte that occurs once.
		family = "ascending chains with tandem repeats behind"
		out = genChainText(t)
		if len(out) > maxLen {
			out = out[:maxLen]
		}
	default:
		family = "lz-copy"
		out = genText(t, "lz", maxInt(n, 1))
		if len(out) > n {
			out = out[:n]
		}
	}
	// relabel: map the small symbols to arbitrary byte values so that all 256
	// values and both orders occur.
	if (fam < 10 || fam >= 12) && fam != 15 && rapid.Bool().Draw(t, "relabel") {
		var m [256]byte
		for i := range m {
			m[i] = byte(i)
		}
		vals := []byte{0, 'a', 'b', 0xff, 0x7f, 0x80, 1}
		for i := 0; i < 4; i++ {
			m[i] = vals[rapid.IntRange(0, len(vals)-1).Draw(t, "lab")] + byte(rapid.IntRange(0, 3).Draw(t, "labd"))
		}
		// keep the map injective on the symbols in use
		used := map[byte]bool{}
		ok := true
		for i := 0; i < 4; i++ {
			if used[m[i]] {
				ok = false
			}
			used[m[i]] = true
		}
		if ok {
			for i, c := range out {
				if c < 4 {
					out[i] = m[c]
				}
			}
		}
	}
	return out, family
}

// genChainText: see family 15 of genSuffixText. One run letter x for all runs,
// each run followed by the common follower y = x+1 or by a letter that occurs
// only once; the copies end with a byte of their own.
func genChainText(t *rapid.T) []byte {
	var out []byte
	k := rapid.IntRange(8, 18).Draw(t, "chainLen")
	const filler = 'z'
	x := byte('A' + k)
	y := x + 1
	unique := 0
	for c := rapid.IntRange(2, 4).Draw(t, "chainCopies"); c > 0; c-- {
		for i := 0; i < k; i++ {
			out = append(out, byte('A'+i), filler)
		}
		for g := rapid.IntRange(1, 4).Draw(t, "chainRuns"); g > 0; g-- {
			for r := rapid.IntRange(1, 5).Draw(t, "chainRun"); r > 0; r-- {
				out = append(out, x, filler)
			}
			f := y
			if rapid.IntRange(0, 2).Draw(t, "chainFollower") == 0 && unique < 20 {
				unique++
				f = y + byte(unique)
			}
			out = append(out, f, filler)
		}
		out = append(out, byte('{'+c))
	}
	return out
}
