package harness

import (
	"encoding/json"
	"fmt"
	"sort"
	"testing"

	"github.com/ulikunitz/lz"
	"pgregory.net/rapid"
)

// C11 at distances the small histories never see: more than a MiB of
// high-entropy text (bytes uniform over 256 values, expanded from one drawn
// seed) with a few planted copies of 3..24 bytes at distances around the powers
// of two up to 2^20 (where the cost of an offset changes) and beyond. Repeated
// n-grams are so rare in such a text that the optimum of every block can be
// computed exactly from an index of the minimum-match-length grams: the
// dynamic program only has match edges where the index has an earlier
// occurrence inside the window.

type farCase struct {
	Cfg    PCfg     `json:"cfg"`
	Seed   uint64   `json:"seed"`
	Len    int      `json:"len"`
	Plants [][3]int `json:"plants"` // position, distance, length
}

func farText(c farCase) []byte {
	t := make([]byte, c.Len)
	x := c.Seed
	for i := 0; i < len(t); i += 8 {
		x += 0x9e3779b97f4a7c15
		z := x
		z = (z ^ (z >> 30)) * 0xbf58476d1ce4e5b9
		z = (z ^ (z >> 27)) * 0x94d049bb133111eb
		z ^= z >> 31
		for k := 0; k < 8 && i+k < len(t); k++ {
			t[i+k] = byte(z >> (8 * k))
		}
	}
	for _, p := range c.Plants {
		pos, d, l := p[0], p[1], p[2]
		if d < 1 || pos-d < 0 || pos+l > len(t) {
			continue
		}
		for k := 0; k < l; k++ {
			t[pos+k] = t[pos-d+k]
		}
	}
	return t
}

// gramIndex maps the g-byte gram (g = 2 or 3) at every position to the
// ascending list of positions where it occurs.
func gramIndex(t []byte, g int) map[uint32][]int32 {
	idx := make(map[uint32][]int32, len(t))
	for i := 0; i+g <= len(t); i++ {
		k := uint32(t[i])<<8 | uint32(t[i+1])
		if g == 3 {
			k = k<<8 | uint32(t[i+2])
		}
		idx[k] = append(idx[k], int32(i))
	}
	return idx
}

// sparseOptimalCost is optimalCost for texts with few repeats: the same
// dynamic program, with the candidate sources taken from the gram index.
func sparseOptimalCost(fed []byte, idx map[uint32][]int32, g, off, w, n, win, minM, maxM int) (uint64, int) {
	const inf = ^uint64(0) >> 1
	d := make([]uint64, n+1)
	for i := 1; i <= n; i++ {
		d[i] = inf
	}
	lit := lz.XZCost(1, 0)
	edges := 0
	for i := 0; i < n; i++ {
		if c := d[i] + lit; c < d[i+1] {
			d[i+1] = c
		}
		p := w + i
		limit := n - i
		if limit > maxM {
			limit = maxM
		}
		if limit < minM || p+g > len(fed) {
			continue
		}
		k := uint32(fed[p])<<8 | uint32(fed[p+1])
		if g == 3 {
			k = k<<8 | uint32(fed[p+2])
		}
		list := idx[k]
		lo := p - win
		if lo < off {
			lo = off
		}
		a := sort.Search(len(list), func(j int) bool { return int(list[j]) >= lo })
		for _, s32 := range list[a:] {
			s := int(s32)
			if s >= p {
				break
			}
			cp := 0
			for cp < limit && fed[s+cp] == fed[p+cp] {
				cp++
			}
			for m := minM; m <= cp; m++ {
				edges++
				if c := d[i] + lz.XZCost(uint32(m), uint32(p-s)); c < d[i+m] {
					d[i+m] = c
				}
			}
		}
	}
	return d[n], edges
}

func checkFar(c farCase) (msg string, bad bool, matches int, err error) {
	return checkFarFor(c, "C11")
}

// checkFarFor: prop "C01" only looks at the expansion of the blocks.
func checkFarFor(c farCase, prop string) (msg string, bad bool, matches int, err error) {
	x, err := newParserExec(c.Cfg)
	if err != nil {
		return "", false, 0, errConfigRejected
	}
	x.keepBlocks = true
	text := farText(c)
	x.step(POp{Op: "write", Data: text})
	for k := 0; k < 4096 && x.unparsed() > 0 && !x.dead; k++ {
		x.step(POp{Op: "parse"})
	}
	if m, b := x.first("C11"); b {
		return m, true, 0, nil
	}
	if m, b := x.first("C01"); b {
		return "the blocks do not expand to the text: " + m, true, 0, nil
	}
	if x.dead {
		return "", false, 0, nil
	}
	if prop == "C01" {
		for _, b := range x.blocks {
			matches += len(b.Seqs)
		}
		return "", false, matches, nil
	}
	g := 3
	if x.cc.MinMatchLen == 2 {
		g = 2
	}
	var idx map[uint32][]int32
	for i, b := range x.blocks {
		if b.N == 0 {
			continue
		}
		if idx == nil {
			idx = gramIndex(b.Fed, g)
		}
		opt, _ := sparseOptimalCost(b.Fed, idx, g, b.Off, b.W, b.N, x.cc.WindowSize, x.cc.MinMatchLen, x.cc.MaxMatchLen)
		got := blockCost(b)
		matches += len(b.Seqs)
		if got != opt {
			return fmt.Sprintf("block %d at stream position %d (n=%d, buffer starts at %d): cost %d bits, the optimum is %d bits (%s)",
				i, b.W, b.N, b.Off, got, opt, describeSeqs(b)), true, matches, nil
		}
	}
	return "", false, matches, nil
}

func TestC11Far(t *testing.T) {
	st := statsFor("C11")
	rapid.Check(t, func(t *rapid.T) {
		c := farCase{Seed: rapid.Uint64().Draw(t, "seed")}
		c.Len = 1<<20 + 4096 + 32768*rapid.IntRange(0, 8).Draw(t, "lenExtra")
		c.Cfg = PCfg{Kind: "OSAP",
			MinMatchLen: rapid.SampledFrom([]int{0, 3, 4, 2, 5}).Draw(t, "minMatch"),
			MaxMatchLen: rapid.SampledFrom([]int{0, 273, 8, 1 << 32}).Draw(t, "maxMatch"),
			WindowSize:  rapid.SampledFrom([]int{0, 1 << 20, 1<<20 + 1, 1<<20 - 1, 2 << 20, 1 << 19}).Draw(t, "win"),
			BufferSize:  rapid.SampledFrom([]int{0, 2 << 20, 3 << 20}).Draw(t, "buf"),
			BlockSize:   rapid.SampledFrom([]int{0, 65536, 1 << 20, 100_000, 2 << 20, 1<<20 + 65536}).Draw(t, "blk"),
		}
		if c.Cfg.MaxMatchLen != 0 && c.Cfg.MaxMatchLen < maxInt(c.Cfg.MinMatchLen, 3) {
			c.Cfg.MaxMatchLen = maxInt(c.Cfg.MinMatchLen, 3)
		}
		if c.Cfg.BufferSize == 0 && c.Cfg.WindowSize != 0 && c.Cfg.WindowSize < c.Len {
			c.Cfg.BufferSize = 2 << 20 // the default buffer is the window: make room for the text
		}
		if c.Cfg.BlockSize > 1<<20 && c.Cfg.BufferSize != 0 && c.Cfg.BufferSize < c.Cfg.BlockSize {
			c.Cfg.BufferSize = 3 << 20
		}
		mm := c.Cfg.MinMatchLen
		if mm == 0 {
			mm = 3
		}
		var dists []int
		for j := 7; j <= 20; j++ {
			dists = append(dists, 1<<j-1, 1<<j, 1<<j+1)
		}
		for k := rapid.IntRange(4, 24).Draw(t, "plants"); k > 0; k-- {
			var d int
			switch rapid.IntRange(0, 3).Draw(t, "distKind") {
			case 0:
				d = rapid.IntRange(1, c.Len-100).Draw(t, "dist")
			case 1:
				d = rapid.SampledFrom([]int{1 << 20, 1<<20 - 1, 1<<20 + 1, 1 << 19, 1<<19 + 1, 1 << 16}).Draw(t, "distTop")
			default:
				d = rapid.SampledFrom(dists).Draw(t, "distPow")
			}
			l := rapid.SampledFrom([]int{mm, mm, mm + 1, mm + 2, 8, 9, 24, 2, 3, 200}).Draw(t, "plantLen")
			pos := d + rapid.IntRange(0, maxInt(c.Len-d-l-1, 0)).Draw(t, "plantAt")
			if rapid.IntRange(0, 5).Draw(t, "plantAcrossMiB") == 0 && l > 1 && d < 1<<20-l {
				// the copy lies across stream position 2^20 (with blocks of
				// more than a MiB: across byte 2^20 of the block)
				pos = 1<<20 - rapid.IntRange(1, l-1).Draw(t, "plantBefore")
			}
			c.Plants = append(c.Plants, [3]int{pos, d, l})
		}
		beginCase("C11", "far", func() any { return c })
		defer endCase()
		msg, bad, matches, err := checkFar(c)
		endCase()
		if err != nil {
			st.class("config-rejected")
			return
		}
		if bad {
			recordFailure("C11", "far", c, msg)
			t.Fatalf("C11 violated (far): %s", msg)
		}
		st.eval([]string{"far:text>1MiB"}, matches > 0, hashJSON(c), "far", func() any { return c })
	})
}

// TestC01Far: the texts of TestC11Far with 2.1 to 2.6 MiB (more than 2^21
// positions in one edge table of OSAP, many blocks served from it), judged for
// C01: the blocks expand to the text.
func TestC01Far(t *testing.T) {
	st := statsFor("C01")
	rapid.Check(t, func(t *rapid.T) {
		c := farCase{Seed: rapid.Uint64().Draw(t, "seed")}
		c.Len = 2<<20 + 100_000 + 65536*rapid.IntRange(0, 7).Draw(t, "lenExtra")
		c.Cfg = PCfg{Kind: "OSAP",
			MinMatchLen: rapid.SampledFrom([]int{0, 3, 4}).Draw(t, "minMatch"),
			BufferSize:  rapid.SampledFrom([]int{0, 3 << 20}).Draw(t, "buf"),
			BlockSize:   rapid.SampledFrom([]int{0, 65536, 1 << 20}).Draw(t, "blk"),
		}
		for k := rapid.IntRange(20, 60).Draw(t, "plants"); k > 0; k-- {
			d := rapid.IntRange(1, c.Len-100).Draw(t, "dist")
			l := rapid.SampledFrom([]int{3, 4, 5, 8, 24, 200}).Draw(t, "plantLen")
			pos := d + rapid.IntRange(0, maxInt(c.Len-d-l-1, 0)).Draw(t, "plantAt")
			c.Plants = append(c.Plants, [3]int{pos, d, l})
		}
		beginCase("C01", "far", func() any { return c })
		defer endCase()
		msg, bad, matches, err := checkFarFor(c, "C01")
		endCase()
		if err != nil {
			st.class("config-rejected")
			return
		}
		if bad {
			recordFailure("C01", "far", c, msg)
			t.Fatalf("C01 violated (far): %s", msg)
		}
		st.eval([]string{"far:text>2MiB"}, matches > 0, hashJSON(c), "far", func() any { return c })
	})
}

func init() {
	for _, prop := range []string{"C01", "C11"} {
		prop := prop
		prev := replayers[prop]
		replayers[prop] = func(raw json.RawMessage) (string, bool, error) {
			var probe struct {
				Plants *json.RawMessage `json:"plants"`
			}
			if err := json.Unmarshal(raw, &probe); err == nil && probe.Plants != nil {
				var c farCase
				if err := json.Unmarshal(raw, &c); err != nil {
					return "", false, err
				}
				msg, bad, _, err := checkFarFor(c, prop)
				return msg, bad, err
			}
			return prev(raw)
		}
	}
}
