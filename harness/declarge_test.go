package harness

import (
	"bytes"
	"fmt"
	"os"
	"testing"

	"github.com/ulikunitz/lz"
	"pgregory.net/rapid"
)

// Large decoder geometries: windows of 64 KiB up to the 8 MiB default, buffers
// of megabytes, literal runs and matches of up to a few MiB (overlapping copies
// whose doubling passes a megabyte, offsets beyond 2^16 and 2^20), megabytes
// pending in front of a failing writer. The small histories cannot reach any
// of that; the oracles are the same.

func genLargeDCfg(t *rapid.T) DCfg {
	var c DCfg
	c.WindowSize = rapid.SampledFrom([]int{0, 1 << 20, 65536, 100_000, 3 << 20, 1<<16 + 1}).Draw(t, "win")
	w := c.WindowSize
	if w == 0 {
		w = 8 * miB
	}
	switch weighted(t, "bufKind", 3, 2, 2, 1) {
	case 0:
		c.BufferSize = 0
	case 1:
		c.BufferSize = w + rapid.SampledFrom([]int{1 << 20, 300_000, 3 << 20, 5 << 20}).Draw(t, "bufExtra")
	case 2:
		c.BufferSize = 2*w + rapid.IntRange(-1, 1).Draw(t, "buf2w")
	default:
		c.BufferSize = w + rapid.IntRange(1, 70_000).Draw(t, "bufTight")
	}
	return c
}

// largeLits is a deterministic function of two small draws.
func largeLits(seed, n int) []byte {
	b := make([]byte, n)
	x := uint64(seed)*0x9e3779b97f4a7c15 + 1
	period := 1 + seed%61
	for i := range b {
		if seed%3 == 0 {
			b[i] = byte('a' + (i%period)%23)
			continue
		}
		x ^= x << 13
		x ^= x >> 7
		x ^= x << 17
		b[i] = byte(x >> 32)
	}
	return b
}

func genLargeLen(t *rapid.T, label string, free int) int {
	switch weighted(t, label+"k", 4, 3, 2, 2, 1) {
	case 0:
		return rapid.IntRange(0, 70_000).Draw(t, label+"small")
	case 1:
		return rapid.SampledFrom([]int{1 << 20, 1<<20 + 1, 1<<20 + 4095, 3 << 19, 2359294, 2_500_000}).Draw(t, label+"mib")
	case 2:
		return rapid.IntRange(1<<20, 5<<20).Draw(t, label+"big")
	case 3:
		return maxInt(0, free-rapid.IntRange(-2, 2).Draw(t, label+"free"))
	default:
		return rapid.IntRange(0, 12).Draw(t, label+"tiny")
	}
}

func genLargeOffset(t *rapid.T, label string, bound int) uint32 {
	var o int
	switch weighted(t, label+"k", 3, 3, 2, 2) {
	case 0:
		o = rapid.SampledFrom([]int{1, 2, 3, 5, 7, 24, 1000, 4097}).Draw(t, label+"small")
	case 1:
		o = rapid.SampledFrom([]int{65535, 65536, 65537, 1 << 20, 1<<20 + 1, 1<<20 + 7, 3 << 20}).Draw(t, label+"pow")
	case 2:
		o = bound
	default:
		o = rapid.IntRange(1, maxInt(bound, 1)).Draw(t, label+"any")
	}
	if o > bound {
		o = bound
	}
	if o < 1 {
		o = 1
	}
	return uint32(o)
}

func genDecLargeHistory(t *rapid.T, x *decExec, faults bool) {
	genDecLargeHistoryOpt(t, x, faults, false)
}

// hostile: a sixth of the blocks get one sequence with Offset 0 (and a match)
// or an Offset beyond min(WindowSize, bytes available).
func genDecLargeHistoryOpt(t *rapid.T, x *decExec, faults, hostile bool) {
	nops := 4 + rapid.IntRange(0, 14).Draw(t, "nops")
	total := 0
	for i := 0; i < nops && !x.dead && total < 40<<20; i++ {
		cc := x.cc
		free := cc.BufferSize - cc.WindowSize
		have := len(x.all)
		bound := minInt(cc.WindowSize, have)
		var op int
		if x.buf != nil {
			// write, wmatch, wblock, read, writeto, reset, steady
			op = []int{0, 1, 2, 3, 4, 5, 8}[weighted(t, "op", 3, 4, 4, 3, 3, 1, 2)]
			if room := cc.BufferSize - len(x.buf.Data); room < 1<<20 && bound >= 1 && rapid.Bool().Draw(t, "matchAtFullBuffer") {
				// the buffer is about to be full: every kind of operand
				// should meet that moment, WriteMatch is otherwise the
				// rarest of them
				op = 1
			}
		} else {
			// write, (no wmatch), wblock, flush, reinit/reset, wbyte, steady
			op = []int{0, 2, 6, 5, 7, 8}[weighted(t, "op", 3, 6, 2, 1, 1, 2)]
		}
		switch op {
		case 8:
			// steady state: hundreds to thousands of small blocks, most of
			// their matches at or just below the window distance (a
			// periodic stream through a parser with small blocks looks
			// like this); the buffer fills and makes room many times, at
			// every alignment. All of it is a function of four draws.
			nb := rapid.IntRange(200, 4000).Draw(t, "steadyBlocks")
			seed := uint32(rapid.IntRange(0, 1<<30).Draw(t, "steadySeed"))
			maxM := rapid.SampledFrom([]int{101, 3, 8, 300, 4000}).Draw(t, "steadyMaxM")
			near := rapid.SampledFrom([]int{0, 0, 7, 64}).Draw(t, "steadyNear")
			next := func(n int) int {
				seed = seed*1664525 + 1013904223
				return int(seed>>8) % maxInt(n, 1)
			}
			for b := 0; b < nb && !x.dead; b++ {
				var seqs []lz.Seq
				var lits []byte
				cur := len(x.all)
				for k := 1 + next(2); k > 0; k-- {
					ll := []int{0, 0, 0, 1, 2, 9}[next(6)]
					bd := minInt(x.cc.WindowSize, cur+ll)
					if bd < 1 {
						ll++
						bd = 1
					}
					o := bd - next(near+1)
					if next(8) == 0 {
						o = 1 + next(bd)
					}
					if o < 1 {
						o = 1
					}
					m := 1 + next(maxM)
					seqs = append(seqs, lz.Seq{LitLen: uint32(ll), MatchLen: uint32(m), Offset: uint32(o)})
					for i := 0; i < ll; i++ {
						lits = append(lits, byte('a'+next(26)))
					}
					cur += ll + m
					total += ll + m
				}
				x.step(DOp{Op: "wblock", Seqs: seqs, Lits: lits})
				if x.buf != nil && len(x.all)-x.cursor > free/2 {
					// the reader keeps up
					x.step(DOp{Op: "read", Len: len(x.all) - x.cursor - next(3)})
				}
			}
		case 0:
			n := genLargeLen(t, "wlen", free)
			total += n
			x.step(DOp{Op: "write", Data: largeLits(rapid.IntRange(0, 999).Draw(t, "wseed"), n)})
		case 1:
			if bound < 1 {
				x.step(DOp{Op: "write", Data: largeLits(3, 100)})
				continue
			}
			m := genLargeLen(t, "mlen", free)
			total += m
			x.step(DOp{Op: "wmatch", M: uint32(m), O: genLargeOffset(t, "moff", bound)})
		case 2:
			var seqs []lz.Seq
			var lits []byte
			cur := have
			for k := rapid.IntRange(0, 3).Draw(t, "nseq"); k > 0; k-- {
				ll := rapid.IntRange(0, 9).Draw(t, "ll")
				if rapid.IntRange(0, 3).Draw(t, "llBig") == 0 {
					ll = genLargeLen(t, "llLen", free)
				}
				b := minInt(cc.WindowSize, cur+ll)
				if b < 1 {
					ll++
					b = 1
				}
				m := genLargeLen(t, "sm", free-ll)
				seqs = append(seqs, lz.Seq{LitLen: uint32(ll), MatchLen: uint32(m), Offset: genLargeOffset(t, "so", b)})
				lits = append(lits, largeLits(rapid.IntRange(0, 999).Draw(t, "lseed"), ll)...)
				cur += ll + m
				total += ll + m
			}
			if hostile && len(seqs) > 0 && rapid.IntRange(0, 5).Draw(t, "hostileSeq") == 0 {
				i := rapid.IntRange(0, len(seqs)-1).Draw(t, "badAt")
				before := have
				for _, q := range seqs[:i] {
					before += int(q.LitLen) + int(q.MatchLen)
				}
				if rapid.Bool().Draw(t, "badZero") {
					seqs[i].Offset = 0
					if seqs[i].MatchLen == 0 {
						seqs[i].MatchLen = 3
					}
				} else {
					seqs[i].Offset = uint32(minInt(cc.WindowSize, before+int(seqs[i].LitLen)) + rapid.SampledFrom([]int{1, 2, 1000, 1 << 20}).Draw(t, "badBy"))
				}
			}
			tl := 0
			if rapid.IntRange(0, 2).Draw(t, "trail") == 0 {
				tl = genLargeLen(t, "tl", free)
			}
			lits = append(lits, largeLits(rapid.IntRange(0, 999).Draw(t, "tseed"), tl)...)
			total += tl
			x.step(DOp{Op: "wblock", Seqs: seqs, Lits: lits})
		case 3:
			unread := len(x.all) - x.cursor
			x.step(DOp{Op: "read", Len: genSize(t, "rlen", unread+2, 0, 1, unread, unread-1, unread/2)})
		case 4:
			var ev *WEvent
			if faults && rapid.IntRange(0, 2).Draw(t, "wtFault") == 0 {
				unread := len(x.all) - x.cursor
				ev = &WEvent{Accept: rapid.IntRange(0, maxInt(unread, 1)).Draw(t, "wtAccept"), Err: true}
			}
			x.step(DOp{Op: "writeto", W: ev})
		case 5:
			if rapid.Bool().Draw(t, "reinit") {
				nc := genLargeDCfg(t)
				x.step(DOp{Op: "reinit", Cfg: &nc})
			} else {
				x.step(DOp{Op: "reset"})
			}
		case 6:
			x.step(DOp{Op: "flush"})
		case 7:
			x.step(DOp{Op: "wbyte", C: byte(rapid.IntRange(0, 255).Draw(t, "c"))})
		}
	}
}

func genLargeWriterScript(t *rapid.T, faults bool) []WEvent {
	if !faults {
		return nil
	}
	var evs []WEvent
	for n := rapid.IntRange(0, 10).Draw(t, "wevents"); n > 0; n-- {
		switch weighted(t, "wev", 4, 3, 1, 1) {
		case 0:
			evs = append(evs, WEvent{Accept: -1})
		case 1:
			evs = append(evs, WEvent{Accept: rapid.SampledFrom([]int{0, 1, 1000, 65536, 500_000, 1 << 20, 1<<20 + 1}).Draw(t, "wacc")})
		case 2:
			evs = append(evs, WEvent{Accept: 0, Err: true})
		default:
			evs = append(evs, WEvent{Accept: -1, Err: true})
		}
	}
	return evs
}

func decLargeProp(t *testing.T, prop string, faults bool) {
	st := statsFor(prop)
	for _, vehicle := range []string{"dbuf", "dec"} {
		vehicle := vehicle
		t.Run(vehicle, func(t *testing.T) {
			rapid.Check(t, func(t *rapid.T) {
				c := DecCase{Vehicle: vehicle, Cfg: genLargeDCfg(t)}
				if vehicle == "dec" {
					c.Writer = genLargeWriterScript(t, faults)
				}
				x, err := newDecExec(c)
				if err != nil {
					st.class("config-rejected")
					return
				}
				beginCase(prop, "large-"+vehicle, func() any { return x.Case() }) // replayable (only written out if the case hangs)
				defer endCase()
				genDecLargeHistoryOpt(t, x, faults, prop == "C05")
				x.finish()
				endCase()
				if msg, bad := x.first(prop); bad {
					recordFailure(prop, "large-"+vehicle, x.Case(), msg)
					t.Fatalf("%s violated (large %s): %s", prop, vehicle, msg)
				}
				for i := 0; i < x.excludedD14; i++ {
					st.exclude("D14:item>BufferSize-WindowSize")
				}
				if x.dead {
					st.abort("large-" + vehicle)
					return
				}
				cl := append(decClasses(x), "large", "vehicle:"+vehicle)
				if len(x.all) > 1<<20 {
					cl = append(cl, "large:stream>1MiB")
				}
				sum := summarizeDecCase(x)
				st.eval(cl, x.shrunk || x.retryLoopRan > 0, hashJSON(sum), "large-"+vehicle, func() any { return sum })
			})
		})
	}
}

// summarizeDecCase: large operands are not written out in evidence samples.
func summarizeDecCase(x *decExec) any {
	type opSum struct {
		Op   string `json:"op"`
		Len  int    `json:"len,omitempty"`
		M    uint32 `json:"m,omitempty"`
		O    uint32 `json:"o,omitempty"`
		Seqs any    `json:"seqs,omitempty"`
	}
	var ops []opSum
	for _, op := range x.log {
		s := opSum{Op: op.Op, M: op.M, O: op.O}
		switch op.Op {
		case "write":
			s.Len = len(op.Data)
		case "wblock":
			s.Len = len(op.Lits)
			s.Seqs = op.Seqs
		case "read":
			s.Len = op.Len
		}
		ops = append(ops, s)
	}
	return map[string]any{"vehicle": x.c.Vehicle, "cfg": x.c.Cfg, "writer": x.c.Writer, "ops": ops}
}

func TestC04Large(t *testing.T) { decLargeProp(t, "C04", false) }
func TestC05Large(t *testing.T) { decLargeProp(t, "C05", false) }
func TestC06Large(t *testing.T) { decLargeProp(t, "C06", true) }
func TestC07Large(t *testing.T) { decLargeProp(t, "C07", false) }
func TestC17Large(t *testing.T) { decLargeProp(t, "C17", true) }
func TestC18Large(t *testing.T) { decLargeProp(t, "C18", true) }

// ---------------------------------------------------------------- volume

// patternWriter checks what a Decoder hands out against the periodic stream.
type patternWriter struct {
	pat []byte
	big []byte // the pattern repeated
	pos int64
	bad string
}

func (w *patternWriter) Write(p []byte) (int, error) {
	period := int64(len(w.pat))
	for len(w.big) < 1<<16+2*len(w.pat) {
		w.big = append(w.big, w.pat...)
	}
	for off := 0; off < len(p) && w.bad == ""; {
		n := minInt(len(p)-off, 1<<16)
		start := int((w.pos + int64(off)) % period)
		if !bytes.Equal(p[off:off+n], w.big[start:start+n]) {
			for i := 0; i < n; i++ {
				if c := p[off+i]; c != w.big[start+i] {
					w.bad = fmt.Sprintf("byte at stream offset %d is %#x, the stream has %#x there", w.pos+int64(off+i), c, w.big[start+i])
					break
				}
			}
		}
		off += n
	}
	w.pos += int64(len(p))
	return len(p), nil
}

// TestC04Volume drives one DecoderBuffer (and, with VERIF_VOLUME_DEC=1, one
// Decoder) past 2^32 bytes of output without a Reset: a periodic stream
// (period 251) written with window-sized matches, read out and compared
// completely; around and behind the 4 GiB mark a generated mix of WriteByte,
// Write, WriteMatch and WriteBlock with offsets up to the window. The total
// position (Off) leaves 32 bits; nothing the decoder does may depend on that.
func TestC04Volume(t *testing.T) {
	st := statsFor("C04")
	rapid.Check(t, func(t *rapid.T) {
		const period = 251
		pat := make([]byte, period)
		x := rapid.Uint64().Draw(t, "patSeed")
		for i := range pat {
			x += 0x9e3779b97f4a7c15
			z := x
			z = (z ^ (z >> 30)) * 0xbf58476d1ce4e5b9
			pat[i] = byte(z >> 32)
		}
		at := func(p int64) byte { return pat[p%period] }
		var big []byte // the pattern repeated, for comparisons at memcmp speed
		w := rapid.SampledFrom([]int{65536, 1 << 20, 60_000}).Draw(t, "win")
		useDec := os.Getenv("VERIF_VOLUME_DEC") == "1" && rapid.Bool().Draw(t, "decoder")
		var buf lz.DecoderBuffer
		var dec *lz.Decoder
		pw := &patternWriter{pat: pat}
		if useDec {
			var err error
			if dec, err = lz.NewDecoder(pw, lz.DecoderConfig{WindowSize: w}); err != nil {
				t.Fatalf("NewDecoder: %v", err)
			}
		} else if err := buf.Init(lz.DecoderConfig{WindowSize: w}); err != nil {
			t.Fatalf("Init: %v", err)
		}
		var total int64
		scratch := make([]byte, 2*w+16)
		for len(big) < 2*w+16+2*period {
			big = append(big, pat...)
		}
		fail := func(format string, a ...any) {
			msg := fmt.Sprintf("after %d bytes (window %d, decoder %v): ", total, w, useDec) + fmt.Sprintf(format, a...)
			recordFailure("C04", "volume", map[string]any{"patSeed": x, "win": w, "total": total, "decoder": useDec}, msg)
			t.Fatalf("C04 violated (volume): %s", msg)
		}
		drain := func() {
			if useDec {
				if pw.bad != "" {
					fail("%s", pw.bad)
				}
				return
			}
			for {
				n, _ := buf.Read(scratch)
				if n == 0 {
					break
				}
				base := total - int64(len(buf.Data)-buf.R) - int64(n)
				if !bytes.Equal(scratch[:n], big[base%period:int(base%period)+n]) {
					for i := 0; i < n; i++ {
						if scratch[i] != at(base+int64(i)) {
							fail("Read returned %#x at stream offset %d, the stream has %#x", scratch[i], base+int64(i), at(base+int64(i)))
						}
					}
				}
			}
			if buf.Off != total {
				recordFailure("C17", "volume", map[string]any{"total": total}, "Off")
				fail("Off=%d, %d bytes were written", buf.Off, total)
			}
		}
		// litsAt: n stream bytes from position p on
		litsAt := func(p int64, n int) []byte {
			return append([]byte(nil), big[p%period:int(p%period)+n]...)
		}
		lits := func(n int) []byte { return litsAt(total, n) }
		block := func(seqs []lz.Seq, l []byte) {
			var n, k, ll int
			var err error
			if useDec {
				n, k, ll, err = dec.WriteBlock(lz.Block{Sequences: seqs, Literals: l})
			} else {
				n, k, ll, err = buf.WriteBlock(lz.Block{Sequences: seqs, Literals: l})
			}
			want := len(l)
			for _, s := range seqs {
				want += int(s.MatchLen)
			}
			if err != nil || k != len(seqs) || ll != len(l) || n != want {
				fail("WriteBlock(%v, %d literals) = (%d, %d, %d, %v)", seqs, len(l), n, k, ll, err)
			}
			total += int64(n)
		}
		// start: a few periods as literals
		block(nil, lits(4*period))
		drain()
		// bulk: window-sized matches up to shortly before 2^32
		chunk := w - w%period
		for total < 1<<32-int64(3*w) {
			block([]lz.Seq{{MatchLen: uint32(chunk), Offset: period * uint32(1+total%3)}}, nil)
			drain()
		}
		// around and behind the mark: a generated mix
		ops := 0
		for total < 1<<32+int64(2*w) {
			ops++
			maxOff := int(minInt64(total, int64(w))) / period
			off := func() uint32 {
				k := 1
				switch rapid.IntRange(0, 2).Draw(t, "offKind") {
				case 0:
					k = maxOff
				case 1:
					k = rapid.IntRange(1, maxOff).Draw(t, "offK")
				}
				return uint32(k * period)
			}
			switch rapid.IntRange(0, 3).Draw(t, "op") {
			case 0:
				ll := rapid.IntRange(0, 40).Draw(t, "ll")
				m := rapid.IntRange(0, 9000).Draw(t, "m")
				l := lits(ll)
				l = append(l, litsAt(total+int64(ll+m), rapid.IntRange(0, 20).Draw(t, "trail"))...)
				block([]lz.Seq{{LitLen: uint32(ll), MatchLen: uint32(m), Offset: off()}}, l)
			case 1:
				m := rapid.IntRange(1, chunk).Draw(t, "mBig")
				block([]lz.Seq{{MatchLen: uint32(m), Offset: off()}}, nil)
			case 2:
				if useDec {
					block(nil, lits(rapid.IntRange(1, 3000).Draw(t, "wlen")))
				} else {
					m, o := uint32(rapid.IntRange(0, 5000).Draw(t, "wm")), off()
					n, err := buf.WriteMatch(m, o)
					if err != nil || n != int(m) {
						fail("WriteMatch(%d, %d) = (%d, %v)", m, o, n, err)
					}
					total += int64(n)
				}
			default:
				c := at(total)
				var err error
				if useDec {
					err = dec.WriteByte(c)
				} else {
					err = buf.WriteByte(c)
				}
				if err != nil {
					fail("WriteByte = %v", err)
				}
				total++
			}
			drain()
		}
		if useDec {
			if err := dec.Flush(); err != nil || pw.pos != total {
				fail("Flush = %v, the writer holds %d bytes", err, pw.pos)
			}
			drain()
		}
		st.eval([]string{"volume>4GiB"}, true, x^uint64(w), "volume", func() any {
			return map[string]any{"window": w, "bytes": total, "generated_ops_around_2^32": ops, "decoder": useDec}
		})
	})
}

func minInt64(a, b int64) int64 {
	if a < b {
		return a
	}
	return b
}
