package harness

import (
	"bytes"
	"encoding/json"
	"fmt"
	"reflect"
	"testing"

	"github.com/ulikunitz/lz"
	"pgregory.net/rapid"
)

var costPool = []string{"", "XZCost", "x", "xzcost", "ü€", "<&>", `"quoted"\`, "a b\tc\n", " "}

// genAnyCfg draws a configuration value of the given kind with arbitrary field
// values (zero, negative, large): C20 quantifies over all configuration
// values, accepted or not.
func genAnyCfg(t *rapid.T, kind string) PCfg {
	c := PCfg{Kind: kind}
	f := func(label string) int {
		switch weighted(t, label+"k", 2, 3, 2) {
		case 0:
			return 0
		case 1:
			return genPoolInt(t, label)
		default:
			return rapid.Int().Draw(t, label+"any")
		}
	}
	c.ShrinkSize, c.BufferSize, c.WindowSize, c.BlockSize = f("shrink"), f("buffer"), f("window"), f("block")
	switch kind {
	case "HP", "BHP":
		c.InputLen, c.HashBits = f("inputLen"), f("hashBits")
	case "BUP":
		c.InputLen, c.HashBits, c.BucketSize = f("inputLen"), f("hashBits"), f("bucketSize")
	case "DHP", "BDHP":
		c.InputLen1, c.HashBits1, c.InputLen2, c.HashBits2 = f("inputLen1"), f("hashBits1"), f("inputLen2"), f("hashBits2")
	case "GSAP":
		c.MinMatchLen = f("minMatchLen")
	case "OSAP":
		c.MinMatchLen, c.MaxMatchLen = f("minMatchLen"), f("maxMatchLen")
		if rapid.Bool().Draw(t, "costPool") {
			c.Cost = rapid.SampledFrom(costPool).Draw(t, "cost")
		} else {
			c.Cost = rapid.String().Draw(t, "costAny") // rapid strings are valid UTF-8
		}
	}
	return c
}

func typeName(kind string) string { return kind }

// checkCfgAlgebra decides the configuration-only clauses of C20 for one value.
func checkCfgAlgebra(c PCfg) (msg string, bad bool) {
	defer func() {
		if r := recover(); r != nil {
			msg, bad = fmt.Sprintf("panic: %v", r), true
		}
	}()
	cfg := c.LZ()
	orig := c.LZ()
	// --- JSON round trip
	b, err := json.Marshal(cfg)
	if err != nil {
		return fmt.Sprintf("json.Marshal: %v", err), true
	}
	back, err := lz.ParseJSON(b)
	if err != nil {
		return fmt.Sprintf("ParseJSON(%s): %v", b, err), true
	}
	if reflect.TypeOf(back) != reflect.TypeOf(cfg) {
		return fmt.Sprintf("ParseJSON(%s) has type %T, want %T", b, back, cfg), true
	}
	if !reflect.DeepEqual(back, orig) {
		return fmt.Sprintf("ParseJSON(Marshal(cfg)) = %+v, want %+v (JSON %s)", back, orig, b), true
	}
	if !reflect.DeepEqual(cfg, orig) {
		return "json.Marshal modified the configuration", true
	}
	// what the caller does with a parsed configuration is its own business:
	// the same document parsed again (and the document itself overwritten
	// in between) yields the same fields again
	bv := reflect.ValueOf(back).Elem()
	for i := 0; i < bv.NumField(); i++ {
		switch f := bv.Field(i); f.Kind() {
		case reflect.Int:
			f.SetInt(f.Int() + 7)
		case reflect.String:
			f.SetString(f.String() + "?")
		}
	}
	back.SetDefaults()
	b2 := append([]byte(nil), b...)
	again, err := lz.ParseJSON(b2)
	for i := range b2 {
		b2[i] = ' '
	}
	if err != nil || !reflect.DeepEqual(again, orig) {
		return fmt.Sprintf("the document %s parsed a second time (after the first result was modified by its owner) = %+v, %v; want %+v", b, again, err, orig), true
	}
	if third, err := lz.ParseJSON(b); err != nil || !reflect.DeepEqual(third, orig) {
		return fmt.Sprintf("the document %s parsed a third time (after the caller overwrote the slice of the second call) = %+v, %v; want %+v", b, third, err, orig), true
	}
	// --- the document of this type decoded into every other type is rejected
	for _, k := range Kinds {
		if k == c.Kind {
			continue
		}
		other := PCfg{Kind: k}.LZ()
		if err := json.Unmarshal(b, other); err == nil {
			return fmt.Sprintf("a %s document was accepted by json.Unmarshal into %T", c.Kind, other), true
		}
	}
	// --- Clone
	cl := cfg.Clone()
	if reflect.TypeOf(cl) != reflect.TypeOf(cfg) || !reflect.DeepEqual(cl, orig) {
		return fmt.Sprintf("Clone() = %+v, want %+v", cl, orig), true
	}
	if reflect.ValueOf(cl).Pointer() == reflect.ValueOf(cfg).Pointer() {
		return "Clone returned the receiver", true
	}
	// mutate every field of the clone; the original must not change
	cv := reflect.ValueOf(cl).Elem()
	for i := 0; i < cv.NumField(); i++ {
		f := cv.Field(i)
		switch f.Kind() {
		case reflect.Int:
			f.SetInt(f.Int() ^ 0x5a5a)
		case reflect.String:
			f.SetString(f.String() + "!")
		}
	}
	if !reflect.DeepEqual(cfg, orig) {
		return "mutating the clone changed the original", true
	}
	// --- SetDefaults: idempotent, only zero fields replaced
	d1 := cfg.Clone()
	d1.SetDefaults()
	d2 := d1.Clone()
	d2.SetDefaults()
	if !reflect.DeepEqual(d1, d2) {
		return fmt.Sprintf("SetDefaults is not idempotent: once %+v, twice %+v", d1, d2), true
	}
	ov, dv := reflect.ValueOf(orig).Elem(), reflect.ValueOf(d1).Elem()
	for i := 0; i < ov.NumField(); i++ {
		if !ov.Field(i).IsZero() && !reflect.DeepEqual(ov.Field(i).Interface(), dv.Field(i).Interface()) {
			return fmt.Sprintf("SetDefaults changed the non-zero field %s from %v to %v",
				ov.Type().Field(i).Name, ov.Field(i).Interface(), dv.Field(i).Interface()), true
		}
	}
	if !reflect.DeepEqual(cfg, orig) {
		return "SetDefaults on a clone changed the original", true
	}
	// BufConfig / SetBufConfig are consistent with the fields
	bc := cfg.BufConfig()
	if bc.ShrinkSize != c.ShrinkSize || bc.BufferSize != c.BufferSize || bc.WindowSize != c.WindowSize || bc.BlockSize != c.BlockSize {
		return fmt.Sprintf("BufConfig() = %+v for %+v", bc, orig), true
	}
	return "", false
}

type cfgCase struct {
	Cfg PCfg `json:"cfg"`
}

// checkCfgInterleaved: the JSON round trip of a configuration must not depend
// on other JSON operations of the package that happen in between (another
// configuration marshalled, another document parsed or rejected).
func checkCfgInterleaved(c, other PCfg) (msg string, bad bool) {
	defer func() {
		if r := recover(); r != nil {
			msg, bad = fmt.Sprintf("panic: %v", r), true
		}
	}()
	cfg, ocfg := c.LZ(), other.LZ()
	b, err := json.Marshal(cfg)
	if err != nil {
		return fmt.Sprintf("json.Marshal: %v", err), true
	}
	ob, err := json.Marshal(ocfg)
	if err != nil {
		return fmt.Sprintf("json.Marshal: %v", err), true
	}
	if _, err := lz.ParseJSON(ob); err != nil {
		return fmt.Sprintf("ParseJSON(%s): %v", ob, err), true
	}
	_ = json.Unmarshal(ob, c.LZ()) // rejected unless the kinds agree
	// A document of the other type that also carries properties foreign to
	// it (those of all seven types, non-zero): whether it is accepted or
	// not, it must leave no trace in what is parsed afterwards.
	var m map[string]any
	if json.Unmarshal(ob, &m) == nil {
		for k, v := range map[string]any{"ShrinkSize": 11, "BufferSize": 77, "WindowSize": 33, "BlockSize": 22,
			"InputLen": 5, "HashBits": 9, "InputLen1": 4, "HashBits1": 7, "InputLen2": 7, "HashBits2": 8,
			"MinMatchLen": 6, "MaxMatchLen": 66, "BucketSize": 7, "Cost": "XZCost"} {
			if _, ok := m[k]; !ok {
				m[k] = v
			}
		}
		if fb, err := json.Marshal(m); err == nil {
			_, _ = lz.ParseJSON(fb)
			_ = json.Unmarshal(fb, other.LZ())
		}
	}
	back, err := lz.ParseJSON(b)
	if err != nil {
		return fmt.Sprintf("ParseJSON(%s): %v", b, err), true
	}
	if !reflect.DeepEqual(back, c.LZ()) {
		return fmt.Sprintf("after marshalling and parsing %s in between, ParseJSON(%s) = %+v, want %+v", ob, b, back, c.LZ()), true
	}
	oback, err := lz.ParseJSON(ob)
	if err != nil || !reflect.DeepEqual(oback, other.LZ()) {
		return fmt.Sprintf("ParseJSON(%s) = %+v, %v; want %+v", ob, oback, err, other.LZ()), true
	}
	return "", false
}

type cfgPairCase struct {
	Cfg   PCfg `json:"cfg"`
	Other PCfg `json:"other"`
}

func TestC20(t *testing.T) {
	st := statsFor("C20")
	for _, kind := range kindsFromEnv(Kinds) {
		kind := kind
		t.Run(kind, func(t *testing.T) {
			rapid.Check(t, func(t *rapid.T) {
				decorrelate(t, kind)
				c := genAnyCfg(t, kind)
				msg, bad := checkCfgAlgebra(c)
				if bad {
					recordFailure("C20", kind, cfgCase{c}, msg)
					t.Fatalf("C20 violated (%s): %s", kind, msg)
				}
				other := genAnyCfg(t, rapid.SampledFrom(Kinds).Draw(t, "otherKind"))
				if msg, bad := checkCfgInterleaved(c, other); bad {
					recordFailure("C20", kind, cfgPairCase{c, other}, msg)
					t.Fatalf("C20 violated (%s): %s", kind, msg)
				}
				cl := []string{"algebra", "kind:" + kind}
				nz := nonZeroFields(c)
				big := false
				for _, v := range []int{c.ShrinkSize, c.BufferSize, c.WindowSize, c.BlockSize, c.InputLen, c.HashBits,
					c.InputLen1, c.HashBits1, c.InputLen2, c.HashBits2, c.MinMatchLen, c.MaxMatchLen, c.BucketSize} {
					if v < 0 || v > 1<<32 {
						big = true
					}
				}
				if big {
					cl = append(cl, "negative-or->2^32-field")
				}
				st.eval(cl, nz >= 3 && big, hashJSON(c), kind, func() any { return cfgCase{c} })
			})
		})
	}
}

// ---------------------------------------------------------------- rejection of documents

type docCase struct {
	Doc Bytes `json:"doc"`
	// Into: "" = ParseJSON, otherwise json.Unmarshal into a value of that kind
	Into string `json:"into,omitempty"`
	// WantErr: the document must be rejected
	WantErr bool `json:"wantErr"`
}

func checkDoc(c docCase) (msg string, bad bool) {
	defer func() {
		if r := recover(); r != nil {
			msg, bad = fmt.Sprintf("panic on document %q: %v", []byte(c.Doc), r), true
		}
	}()
	var err error
	var got lz.ParserConfig
	if c.Into == "" {
		got, err = lz.ParseJSON(c.Doc)
	} else {
		got = PCfg{Kind: c.Into}.LZ()
		err = json.Unmarshal(c.Doc, got)
	}
	if c.WantErr && err == nil {
		return fmt.Sprintf("document %q (into %q) was accepted as %+v; it must be rejected", []byte(c.Doc), c.Into, got), true
	}
	if err == nil && c.Into == "" {
		if got == nil {
			return "ParseJSON returned nil, nil", true
		}
	}
	return "", false
}

func TestC20Docs(t *testing.T) {
	st := statsFor("C20")
	rapid.Check(t, func(t *rapid.T) {
		var c docCase
		kind := rapid.SampledFrom(Kinds).Draw(t, "kind")
		fields := map[string]any{}
		if rapid.Bool().Draw(t, "withFields") {
			for _, name := range []string{"ShrinkSize", "BufferSize", "WindowSize", "BlockSize", "InputLen", "HashBits",
				"InputLen1", "HashBits1", "InputLen2", "HashBits2", "MinMatchLen", "MaxMatchLen", "BucketSize"} {
				if rapid.IntRange(0, 3).Draw(t, "has"+name) == 0 {
					fields[name] = genPoolInt(t, name)
				}
			}
		}
		class := ""
		switch weighted(t, "docKind", 3, 2, 2, 3, 3, 2) {
		case 0: // unknown type
			fields["Type"] = rapid.SampledFrom([]string{"", "hp", "HP ", " HP", "BUHP", "Hp", "GSAP2", "OSAP\u0000", "XP", "bdhp"}).Draw(t, "badType")
			c.WantErr, class = true, "unknown-type"
		case 1: // Type missing
			c.WantErr, class = true, "type-missing"
		case 2: // Type not a string
			fields["Type"] = rapid.SampledFrom([]any{1, nil, true, []any{"HP"}, map[string]any{"a": 1}}).Draw(t, "nonString")
			c.WantErr, class = true, "type-not-a-string"
		case 3: // valid type decoded into another type
			fields["Type"] = kind
			others := []string{}
			for _, k := range Kinds {
				if k != kind {
					others = append(others, k)
				}
			}
			c.Into = rapid.SampledFrom(others).Draw(t, "into")
			c.WantErr, class = true, "mismatching-type"
		case 4: // valid document: must not panic (acceptance is not asserted for odd field values)
			fields["Type"] = kind
			class = "valid-type"
		default: // arbitrary valid JSON value
			c.Doc = Bytes(rapid.SampledFrom([]string{"null", "[]", "1", `"HP"`, "{}", `{"Type":"HP","InputLen":"3"}`, `{"Type":"HP","HashBits":1e400}`,
				`{"type":"hp"}`, `{"Type":"HP","Type":"BHP"}`, `{"TYPE":"GSAP"}`}).Draw(t, "rawDoc"))
			class = "raw-document"
			if string(c.Doc) == "null" || string(c.Doc) == "{}" || string(c.Doc) == "[]" || string(c.Doc) == "1" || string(c.Doc) == `"HP"` {
				c.WantErr = true
			}
			if string(c.Doc) == "{}" && rapid.Bool().Draw(t, "emptyInto") {
				c.Into = rapid.SampledFrom(Kinds).Draw(t, "emptyIntoKind")
			}
		}
		if c.WantErr && c.Into == "" && class != "raw-document" && rapid.Bool().Draw(t, "intoConcrete") {
			// the same document decoded into a configuration value of a
			// concrete type: no Type it could be is the right one
			c.Into = rapid.SampledFrom(Kinds).Draw(t, "intoKind")
			class += "-into-concrete-type"
		}
		if c.Doc == nil {
			b, err := json.Marshal(fields)
			if err != nil {
				t.Fatalf("marshal: %v", err)
			}
			c.Doc = b
		}
		msg, bad := checkDoc(c)
		if bad {
			recordFailure("C20", "doc", c, msg)
			t.Fatalf("C20 violated (document): %s", msg)
		}
		st.eval([]string{"document", "doc:" + class}, c.WantErr && class != "raw-document", hashJSON(c), "doc-"+class, func() any { return c })
	})
}

// ---------------------------------------------------------------- reported configuration

type reportedCase struct {
	Cfg  PCfg  `json:"cfg"`
	Text Bytes `json:"text"`
}

func parseAll(p lz.Parser, text []byte, max int) (out []any, err error) {
	defer func() {
		if r := recover(); r != nil {
			err = fmt.Errorf("panic: %v", r)
		}
	}()
	var blk lz.Block
	pos := 0
	for steps := 0; steps < max; steps++ {
		n, werr := p.Write(text[pos:])
		pos += n
		out = append(out, []any{"w", n, errName(werr)})
		for {
			n, perr := p.Parse(&blk, 0)
			out = append(out, []any{n, errName(perr), cloneSeqs(blk.Sequences), string(blk.Literals)})
			if perr != nil {
				break
			}
		}
		if pos == len(text) {
			break
		}
		out = append(out, p.Shrink())
	}
	return out, nil
}

func checkReported(c reportedCase) (msg string, bad bool, rejected bool) {
	cfg := c.Cfg.LZ()
	p, err := cfg.NewParser()
	if err != nil {
		return "", false, true
	}
	want := cfg.Clone()
	want.SetDefaults()
	rep := p.ParserConfig()
	if reflect.TypeOf(rep) != reflect.TypeOf(want) || !reflect.DeepEqual(rep, want) {
		return fmt.Sprintf("ParserConfig() = %+v; the defaults-completed configuration is %+v", rep, want), true, false
	}
	if bc := p.BufferConfig(); bc != want.BufConfig() {
		return fmt.Sprintf("BufferConfig() = %+v; the defaults-completed configuration has %+v", bc, want.BufConfig()), true, false
	}
	// the harness's own completion agrees (this is what the stream model uses)
	if hc := c.Cfg.Completed().LZ(); !reflect.DeepEqual(hc, want) {
		return fmt.Sprintf("documented default rules give %+v, SetDefaults gives %+v", hc, want), true, false
	}
	p2, err := rep.Clone().NewParser()
	if err != nil {
		return fmt.Sprintf("the reported configuration %+v is rejected by NewParser: %v", rep, err), true, false
	}
	if !reflect.DeepEqual(p2.ParserConfig(), rep) {
		return fmt.Sprintf("a parser built from the reported configuration reports %+v instead of %+v", p2.ParserConfig(), rep), true, false
	}
	r1, e1 := parseAll(p, c.Text, 64)
	r2, e2 := parseAll(p2, c.Text, 64)
	if e1 != nil || e2 != nil {
		return "", false, false // panics are C16's business
	}
	if !reflect.DeepEqual(r1, r2) {
		return "a parser built from the reported configuration behaves differently: " + firstDiff(r1, r2), true, false
	}
	// What a parser reports does not change by using it ...
	same := func(p lz.Parser, when string) (string, bool) {
		if rep := p.ParserConfig(); reflect.TypeOf(rep) != reflect.TypeOf(want) || !reflect.DeepEqual(rep, want) {
			return fmt.Sprintf("%s: ParserConfig() = %+v; the defaults-completed configuration is %+v", when, rep, want), true
		}
		if bc := p.BufferConfig(); bc != want.BufConfig() {
			return fmt.Sprintf("%s: BufferConfig() = %+v; the defaults-completed configuration has %+v", when, bc, want.BufConfig()), true
		}
		return "", false
	}
	if m, b := same(p, "after parsing"); b {
		return m, true, false
	}
	// ... nor by wrapping it.
	p3, err := cfg.Clone().NewParser()
	if err != nil {
		return "", false, false
	}
	var r3 []any
	var e3 error
	func() {
		defer func() {
			if r := recover(); r != nil {
				e3 = fmt.Errorf("panic: %v", r)
			}
		}()
		wp := lz.Wrap(bytes.NewReader(c.Text), p3)
		if m, b := same(p3, "after Wrap"); b {
			msg, bad = m, true
			return
		}
		var blk lz.Block
		for i := 0; i < len(c.Text)+4; i++ {
			n, err := wp.Parse(&blk, 0)
			r3 = append(r3, []any{n, errName(err), cloneSeqs(blk.Sequences), string(blk.Literals)})
			if err != nil {
				break
			}
		}
		if m, b := same(p3, "after parsing through Wrap"); b {
			msg, bad = m, true
		}
	}()
	if bad {
		return msg, true, false
	}
	if e3 != nil {
		return "", false, false // C16's business
	}
	// a parser built from the configuration reported after wrapping streams
	// the same blocks
	p4, err := p3.ParserConfig().Clone().NewParser()
	if err != nil {
		return fmt.Sprintf("the configuration %+v reported after Wrap is rejected by NewParser: %v", p3.ParserConfig(), err), true, false
	}
	var r4 []any
	func() {
		defer func() {
			if r := recover(); r != nil {
				e3 = fmt.Errorf("panic: %v", r)
			}
		}()
		wp := lz.Wrap(bytes.NewReader(c.Text), p4)
		var blk lz.Block
		for i := 0; i < len(c.Text)+4; i++ {
			n, err := wp.Parse(&blk, 0)
			r4 = append(r4, []any{n, errName(err), cloneSeqs(blk.Sequences), string(blk.Literals)})
			if err != nil {
				break
			}
		}
	}()
	if e3 == nil && !reflect.DeepEqual(r3, r4) {
		return "a wrapped parser built from the configuration reported after Wrap streams other blocks: " + firstDiff(r3, r4), true, false
	}
	return "", false, false
}

func TestC20Reported(t *testing.T) {
	st := statsFor("C20")
	for _, kind := range kindsFromEnv(Kinds) {
		kind := kind
		t.Run(kind, func(t *testing.T) {
			rapid.Check(t, func(t *rapid.T) {
				decorrelate(t, kind)
				cfg := genPCfg(t, kind, 200)
				sa := kind == "GSAP" || kind == "OSAP"
				tl := 500
				if sa {
					tl = 200 // four parsers, one suffix sort per refill of a tiny buffer
				}
				text := genText(t, "text", tl)
				if !sa && rapid.IntRange(0, 9).Draw(t, "noisy") < 4 {
					// many distinct n-grams: a table of another size than the
					// one reported sees other collisions
					// (every refill of a tiny buffer costs a suffix sort or a
					// sweep over the whole hash table: short texts for those)
					text = genNoisyText(t, "noisy", 400)
					if rapid.IntRange(0, 2).Draw(t, "defaultBits") == 0 {
						text = genNoisyText(t, "noisyLong", 1500)
						cfg.BufferSize = rapid.IntRange(256, 4096).Draw(t, "bufForDefaultBits")
						cfg.ShrinkSize = 0
						cfg.HashBits, cfg.HashBits1, cfg.HashBits2 = 0, 0, 0
						if cfg.InputLen == 2 {
							cfg.InputLen = 3 // 18 bits are not accepted for 2 bytes
						}
						if cfg.InputLen1 == 2 {
							cfg.InputLen1 = 3
							if cfg.InputLen2 != 0 && cfg.InputLen2 <= 3 {
								cfg.InputLen2 = 4
							}
						}
					}
				}
				c := reportedCase{Cfg: cfg, Text: text}
				msg, bad, rej := checkReported(c)
				if bad {
					recordFailure("C20", "reported-"+kind, c, msg)
					t.Fatalf("C20 violated (reported config, %s): %s", kind, msg)
				}
				if rej {
					st.class("config-rejected:" + kind)
					return
				}
				defaults := 0
				cc := cfg.Completed()
				if cc != cfg {
					defaults = 1
				}
				cl := []string{"reported", "kind:" + kind}
				if defaults > 0 {
					cl = append(cl, "reported:some-field-defaulted")
				}
				st.eval(cl, defaults > 0 && len(text) > 20, hashJSON(c), "reported-"+kind, func() any { return c })
			})
		})
	}
}

func init() {
	replayers["C20"] = func(raw json.RawMessage) (string, bool, error) {
		var probe struct {
			Doc   *json.RawMessage `json:"doc"`
			Text  *json.RawMessage `json:"text"`
			Other *json.RawMessage `json:"other"`
		}
		_ = json.Unmarshal(raw, &probe)
		switch {
		case probe.Other != nil:
			var c cfgPairCase
			if err := json.Unmarshal(raw, &c); err != nil {
				return "", false, err
			}
			msg, bad := checkCfgInterleaved(c.Cfg, c.Other)
			return msg, bad, nil
		case probe.Doc != nil:
			var c docCase
			if err := json.Unmarshal(raw, &c); err != nil {
				return "", false, err
			}
			msg, bad := checkDoc(c)
			return msg, bad, nil
		case probe.Text != nil:
			var c reportedCase
			if err := json.Unmarshal(raw, &c); err != nil {
				return "", false, err
			}
			msg, bad, _ := checkReported(c)
			return msg, bad, nil
		}
		var c cfgCase
		if err := json.Unmarshal(raw, &c); err != nil {
			return "", false, err
		}
		msg, bad := checkCfgAlgebra(c.Cfg)
		return msg, bad, nil
	}
}

// ---------------------------------------------------------------- a bare ParserBuffer, initialised again

// TestC20Buf: histories on a bare ParserBuffer in which Init is called again
// on the used value (a buffer from a pool), mostly with a smaller geometry:
// BufferConfig() has to be the defaults-completed configuration given, not
// something derived from the array the value still holds.
var propC20Buf = parserProp{
	prop:   "C20",
	maxBuf: 200,
	opts: func(kind string) histOpts {
		o := defaultHistOpts()
		o.readAt, o.byteAt = 2, 2
		o.resetDat = 2
		return o
	},
	classify: func(x *parserExec) ([]string, bool) {
		n := 0
		for _, op := range x.log {
			if op.Op == "reinit" {
				n++
			}
		}
		if n > 0 {
			return []string{"parser-buffer-initialised-again"}, true
		}
		return nil, false
	},
}

func TestC20Buf(t *testing.T) { propC20Buf.run(t, []string{"BUF"}) }
