package harness

import (
	"encoding/json"
	"fmt"
	"hash/fnv"
	"os"
	"path/filepath"
	"sort"
	"sync"
	"sync/atomic"
	"syscall"
	"time"
)

// propStats collects what a run actually covered for one property. It is
// written to $VERIF_STATS_OUT by TestMain and merged into the evidence file by
// the driver.
type propStats struct {
	mu          sync.Mutex
	Evaluations int            `json:"evaluations"`
	Aborted     int            `json:"aborted"`
	Classes     map[string]int `json:"classes"`
	Excluded    map[string]int `json:"excluded"`
	Samples     []any          `json:"samples"`
	Hashes      []uint64       `json:"hashes"`
	Notes       []string       `json:"notes"`
	hashes      map[uint64]struct{}
	maxSamples  int
	sampleBy    map[string]int
}

var (
	allStatsMu sync.Mutex
	allStats   = map[string]*propStats{}
)

func statsFor(prop string) *propStats {
	allStatsMu.Lock()
	defer allStatsMu.Unlock()
	s := allStats[prop]
	if s == nil {
		s = &propStats{
			Classes:    map[string]int{},
			Excluded:   map[string]int{},
			hashes:     map[uint64]struct{}{},
			sampleBy:   map[string]int{},
			maxSamples: 6,
		}
		allStats[prop] = s
	}
	return s
}

// eval records one completed evaluation of a property body.
//
// classes feed the generator health histogram; nontrivial says whether the case
// satisfies the property's non-triviality rule; h is the 64-bit hash of the
// case (distinct_nontrivial is the number of distinct hashes of non-trivial
// cases); sample is called for the first few non-trivial cases (at most two
// per sampleKey) to write the case out.
func (s *propStats) eval(classes []string, nontrivial bool, h uint64, sampleKey string, sample func() any) {
	s.mu.Lock()
	defer s.mu.Unlock()
	s.Evaluations++
	for _, c := range classes {
		s.Classes[c]++
	}
	if !nontrivial {
		return
	}
	s.Classes["nontrivial"]++
	if _, ok := s.hashes[h]; ok {
		return
	}
	s.hashes[h] = struct{}{}
	if len(s.Samples) < s.maxSamples && s.sampleBy[sampleKey] < 2 && sample != nil {
		s.sampleBy[sampleKey]++
		s.Samples = append(s.Samples, sample())
	}
}

// evalN counts n evaluations of an enumeration at once (they are not hashed
// one by one; the enumeration's own rule says what they are).
func (s *propStats) evalN(n int, class string) {
	s.mu.Lock()
	defer s.mu.Unlock()
	s.Evaluations += n
	s.Classes[class] += n
}

func (s *propStats) abort(why string) {
	s.mu.Lock()
	defer s.mu.Unlock()
	s.Aborted++
	s.Classes["aborted:"+why]++
}

func (s *propStats) exclude(class string) {
	s.mu.Lock()
	defer s.mu.Unlock()
	s.Excluded[class]++
}

func (s *propStats) class(c string) {
	s.mu.Lock()
	defer s.mu.Unlock()
	s.Classes[c]++
}

func (s *propStats) note(format string, a ...any) {
	s.mu.Lock()
	defer s.mu.Unlock()
	s.Notes = append(s.Notes, fmt.Sprintf(format, a...))
}

func writeStats() {
	path := os.Getenv("VERIF_STATS_OUT")
	if path == "" {
		return
	}
	allStatsMu.Lock()
	defer allStatsMu.Unlock()
	out := map[string]*propStats{}
	for k, s := range allStats {
		s.mu.Lock()
		s.Hashes = s.Hashes[:0]
		for h := range s.hashes {
			s.Hashes = append(s.Hashes, h)
		}
		sort.Slice(s.Hashes, func(i, j int) bool { return s.Hashes[i] < s.Hashes[j] })
		out[k] = s
	}
	b, err := json.Marshal(out)
	for _, s := range out {
		s.mu.Unlock()
	}
	if err != nil {
		fmt.Fprintln(os.Stderr, "stats marshal:", err)
		return
	}
	if err := os.WriteFile(path, b, 0o644); err != nil {
		fmt.Fprintln(os.Stderr, "stats write:", err)
	}
}

// hashJSON returns the FNV-1a hash of the JSON form of v (cases are plain data,
// so the JSON form is canonical).
func hashJSON(v any) uint64 {
	b, err := json.Marshal(v)
	if err != nil {
		panic(err)
	}
	h := fnv.New64a()
	h.Write(b)
	return h.Sum64()
}

func hashBytes(parts ...[]byte) uint64 {
	h := fnv.New64a()
	for _, p := range parts {
		h.Write(p)
		h.Write([]byte{0xfe, 0x01})
	}
	return h.Sum64()
}

// failureRecord is the replay file format.
type failureRecord struct {
	Property string          `json:"property"`
	Sub      string          `json:"sub,omitempty"`
	Message  string          `json:"message"`
	Hang     bool            `json:"hang,omitempty"`
	Case     json.RawMessage `json:"case"`
}

// recordFailure writes the failing case to $VERIF_FAIL_DIR/<prop>-<sub>.json.
// rapid re-executes the minimal case last, so the file left behind is the
// shrunk reproduction.
func recordFailure(prop, sub string, c any, msg string) {
	dir := os.Getenv("VERIF_FAIL_DIR")
	if dir == "" {
		return
	}
	raw, err := json.Marshal(c)
	if err != nil {
		raw = []byte(fmt.Sprintf("%q", fmt.Sprint(c)))
	}
	rec := failureRecord{Property: prop, Sub: sub, Message: msg, Case: raw}
	b, _ := json.MarshalIndent(rec, "", " ")
	name := prop
	if sub != "" {
		name += "-" + sub
	}
	_ = os.WriteFile(filepath.Join(dir, name+".json"), b, 0o644)
}

// ---------------------------------------------------------------------------
// Watchdog for pure CPU loops (C06, C16): a case that runs for longer than the
// limit is written out and the process exits with status 3. The driver re-runs
// that case alone before calling it a violation.

type wdCase struct {
	prop, sub string
	get       func() any
}

var (
	wdStart atomic.Int64 // unix nanos of the start of the running case; 0 = none
	wdCPU   atomic.Int64 // CPU time of the process (nanos) at the start of the case
	wdCur   atomic.Value // wdCase
)

// cpuNanos is the CPU time (user+system) the process has used so far.
func cpuNanos() int64 {
	var ru syscall.Rusage
	if err := syscall.Getrusage(syscall.RUSAGE_SELF, &ru); err != nil {
		return 0
	}
	return ru.Utime.Nano() + ru.Stime.Nano()
}

func beginCase(prop, sub string, get func() any) {
	wdCur.Store(wdCase{prop, sub, get})
	wdCPU.Store(cpuNanos())
	wdStart.Store(time.Now().UnixNano())
}

func endCase() { wdStart.Store(0) }

// The watchdog measures the CPU time the process has burnt since the case
// began, not wall-clock time: a case that is merely starved by a busy machine
// does not expire, a loop that never ends does. Wall-clock time is a backstop
// (ten times the limit) for a case that blocks without using the CPU.
func startWatchdog() {
	limit := 60 * time.Second
	if v := os.Getenv("VERIF_WATCHDOG_S"); v != "" {
		var s int
		fmt.Sscanf(v, "%d", &s)
		if s > 0 {
			limit = time.Duration(s) * time.Second
		}
	}
	if v := os.Getenv("VERIF_WATCHDOG_MS"); v != "" {
		// development aid: exercises the driver's handling of expiries
		var ms int
		fmt.Sscanf(v, "%d", &ms)
		if ms > 0 {
			limit = time.Duration(ms) * time.Millisecond
		}
	}
	go func() {
		for {
			time.Sleep(minDur(500*time.Millisecond, limit/2))
			st := wdStart.Load()
			if st == 0 {
				continue
			}
			cpu := time.Duration(cpuNanos() - wdCPU.Load())
			wall := time.Since(time.Unix(0, st))
			if cpu < limit && wall < 10*limit {
				continue
			}
			if wdStart.Load() != st {
				continue // another case by now
			}
			c, _ := wdCur.Load().(wdCase)
			var v any
			if c.get != nil {
				v = c.get()
			}
			if dir := os.Getenv("VERIF_FAIL_DIR"); dir != "" {
				raw, _ := json.Marshal(v)
				rec := failureRecord{Property: c.prop, Sub: c.sub,
					Message: fmt.Sprintf("watchdog: case still running after %v of CPU time (%v wall-clock)", cpu.Round(time.Second), wall.Round(time.Second)),
					Hang:    true, Case: raw}
				b, _ := json.MarshalIndent(rec, "", " ")
				_ = os.WriteFile(filepath.Join(dir, "HANG-"+c.prop+".json"), b, 0o644)
			}
			fmt.Fprintf(os.Stderr, "WATCHDOG property=%s sub=%s\n", c.prop, c.sub)
			writeStats()
			os.Exit(3)
		}
	}()
}

// replayFn re-executes a stored case through the same check function the
// generated runs use, without rapid. It returns the violation message, if any.
type replayFn func(raw json.RawMessage) (msg string, failed bool, err error)

var replayers = map[string]replayFn{}

func getenv(name string) string { return os.Getenv(name) }

func minDur(a, b time.Duration) time.Duration {
	if a < b {
		return a
	}
	return b
}

// markRunning writes the case that is about to run to the failure directory
// (RUNNING-<prop>-<sub>.json); clearRunning removes it. Some failures end the
// process without a chance to record anything (a fatal error of the Go
// runtime such as a stack overflow, the race detector): the driver then takes
// the marked case, replays it in a fresh process and reports it if that
// process dies in the same way.
func markRunning(prop, sub string, c any, msg string) {
	dir := os.Getenv("VERIF_FAIL_DIR")
	if dir == "" {
		return
	}
	rec := failureRecord{Property: prop, Sub: sub, Message: msg}
	rec.Case, _ = json.Marshal(c)
	b, _ := json.Marshal(rec)
	_ = os.WriteFile(filepath.Join(dir, "RUNNING-"+prop+"-"+sub+".json"), b, 0o644)
}

func clearRunning(prop, sub string) {
	if dir := os.Getenv("VERIF_FAIL_DIR"); dir != "" {
		os.Remove(filepath.Join(dir, "RUNNING-"+prop+"-"+sub+".json"))
	}
}
