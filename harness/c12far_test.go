package harness

import (
	"encoding/json"
	"fmt"
	"testing"

	"pgregory.net/rapid"
)

// C12 on a suffix array of millions of entries of which only a handful belong
// to positions already passed: the text starts with "W lo" "W hi" and goes on
// with N records "W x y" whose suffixes all sort between those two, so the
// neighbours of an early position in suffix array order lie up to N ranks
// away. The first 64 positions of the first block are judged by brute force
// (only earlier positions can be sources, there are fewer than 64 of them).

type bracketCase struct {
	Cfg     PCfg  `json:"cfg"`
	Word    Bytes `json:"word"`
	Records int   `json:"records"`
	Seed    int   `json:"bracketSeed"`
}

func bracketText(c bracketCase) []byte {
	w := []byte(c.Word)
	t := make([]byte, 0, (c.Records+2)*(len(w)+2))
	t = append(append(t, w...), 0x01)
	t = append(append(t, w...), 0xfe)
	x := uint32(c.Seed)*2654435761 + 1
	for i := 0; i < c.Records; i++ {
		x = x*1664525 + 1013904223
		t = append(t, w...)
		t = append(t, 2+byte(x>>24)%250, byte(x>>16))
	}
	return t
}

func checkBracket(c bracketCase) (msg string, bad bool, err error) {
	x, err := newParserExec(c.Cfg)
	if err != nil {
		return "", false, errConfigRejected
	}
	x.keepBlocks = true
	text := bracketText(c)
	if len(text) > x.cc.BufferSize {
		return "", false, errConfigRejected
	}
	x.step(POp{Op: "write", Data: text})
	x.step(POp{Op: "parse"})
	if m, b := x.first("C12"); b {
		return m, true, nil
	}
	if m, b := x.first("C01"); b {
		return "the block does not expand to the text: " + m, true, nil
	}
	if x.dead || len(x.blocks) == 0 {
		return "", false, nil
	}
	b := x.blocks[0]
	minM := x.cc.MinMatchLen
	blockEnd := b.W + b.N
	p := 0
	si := 0
	lit := 0 // literals seen in front of the next sequence
	for p < 64 && p < blockEnd {
		l := longestPrev(b.Fed, 0, p, blockEnd)
		if si >= len(b.Seqs) {
			if l >= minM {
				return fmt.Sprintf("position %d is a trailing literal; a match of length %d with an earlier position is available", p, l), true, nil
			}
			p++
			continue
		}
		s := b.Seqs[si]
		if lit < int(s.LitLen) {
			if l >= minM {
				return fmt.Sprintf("position %d is a literal; a match of length %d with an earlier position is available", p, l), true, nil
			}
			lit++
			p++
			continue
		}
		if int(s.MatchLen) != l {
			return fmt.Sprintf("the match at position %d has length %d (offset %d); the longest match with an earlier position has length %d", p, s.MatchLen, s.Offset, l), true, nil
		}
		p += int(s.MatchLen)
		si++
		lit = 0
	}
	return "", false, nil
}

func TestC12Bracket(t *testing.T) {
	st := statsFor("C12")
	rapid.Check(t, func(t *rapid.T) {
		c := bracketCase{Seed: rapid.IntRange(0, 1000).Draw(t, "seed")}
		c.Records = rapid.SampledFrom([]int{1_200_000, 70_000, 300_000, 1_060_000}).Draw(t, "records")
		wl := rapid.IntRange(3, 6).Draw(t, "wordLen")
		for i := 0; i < wl; i++ {
			c.Word = append(c.Word, byte('a'+rapid.IntRange(0, 25).Draw(t, "wordByte")))
		}
		c.Cfg = PCfg{Kind: "GSAP", MinMatchLen: rapid.SampledFrom([]int{0, 3, 2}).Draw(t, "minMatch"),
			BufferSize: (c.Records+2)*(wl+2) + rapid.SampledFrom([]int{0, 1, 4096}).Draw(t, "bufExtra"),
			BlockSize:  rapid.SampledFrom([]int{0, 4096, 1 << 20}).Draw(t, "blk")}
		c.Cfg.WindowSize = c.Cfg.BufferSize
		beginCase("C12", "bracket", func() any { return c })
		defer endCase()
		msg, bad, err := checkBracket(c)
		endCase()
		if err != nil {
			st.class("config-rejected")
			return
		}
		if bad {
			recordFailure("C12", "bracket", c, msg)
			t.Fatalf("C12 violated (bracket): %s", msg)
		}
		st.eval([]string{"bracket:suffix-array-of-millions,few-passed"}, c.Records > 1<<20, hashJSON(c), "bracket", func() any { return c })
	})
}

func init() {
	prev := replayers["C12"]
	replayers["C12"] = func(raw json.RawMessage) (string, bool, error) {
		var probe struct {
			Records *int `json:"records"`
		}
		if err := json.Unmarshal(raw, &probe); err == nil && probe.Records != nil {
			var c bracketCase
			if err := json.Unmarshal(raw, &c); err != nil {
				return "", false, err
			}
			return checkBracket(c)
		}
		return prev(raw)
	}
}
