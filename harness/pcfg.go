package harness

import (
	"fmt"

	"github.com/ulikunitz/lz"
	"pgregory.net/rapid"
)

// Kinds lists the seven parsers of the module.
var Kinds = []string{"HP", "BHP", "DHP", "BDHP", "BUP", "GSAP", "OSAP"}

// HashKinds are the parsers built on hash tables.
var HashKinds = []string{"HP", "BHP", "DHP", "BDHP", "BUP"}

// PCfg is the harness's own plain-data form of a parser configuration (the
// union of all fields); it is what a Case stores.
type PCfg struct {
	Kind        string
	ShrinkSize  int    `json:",omitempty"`
	BufferSize  int    `json:",omitempty"`
	WindowSize  int    `json:",omitempty"`
	BlockSize   int    `json:",omitempty"`
	InputLen    int    `json:",omitempty"`
	HashBits    int    `json:",omitempty"`
	InputLen1   int    `json:",omitempty"`
	HashBits1   int    `json:",omitempty"`
	InputLen2   int    `json:",omitempty"`
	HashBits2   int    `json:",omitempty"`
	MinMatchLen int    `json:",omitempty"`
	MaxMatchLen int    `json:",omitempty"`
	BucketSize  int    `json:",omitempty"`
	Cost        string `json:",omitempty"`
}

// LZ converts the plain-data configuration into the library's type.
func (c PCfg) LZ() lz.ParserConfig {
	switch c.Kind {
	case "HP":
		return &lz.HPConfig{ShrinkSize: c.ShrinkSize, BufferSize: c.BufferSize,
			WindowSize: c.WindowSize, BlockSize: c.BlockSize,
			InputLen: c.InputLen, HashBits: c.HashBits}
	case "BHP":
		return &lz.BHPConfig{ShrinkSize: c.ShrinkSize, BufferSize: c.BufferSize,
			WindowSize: c.WindowSize, BlockSize: c.BlockSize,
			InputLen: c.InputLen, HashBits: c.HashBits}
	case "DHP":
		return &lz.DHPConfig{ShrinkSize: c.ShrinkSize, BufferSize: c.BufferSize,
			WindowSize: c.WindowSize, BlockSize: c.BlockSize,
			InputLen1: c.InputLen1, HashBits1: c.HashBits1,
			InputLen2: c.InputLen2, HashBits2: c.HashBits2}
	case "BDHP":
		return &lz.BDHPConfig{ShrinkSize: c.ShrinkSize, BufferSize: c.BufferSize,
			WindowSize: c.WindowSize, BlockSize: c.BlockSize,
			InputLen1: c.InputLen1, HashBits1: c.HashBits1,
			InputLen2: c.InputLen2, HashBits2: c.HashBits2}
	case "BUP":
		return &lz.BUPConfig{ShrinkSize: c.ShrinkSize, BufferSize: c.BufferSize,
			WindowSize: c.WindowSize, BlockSize: c.BlockSize,
			InputLen: c.InputLen, HashBits: c.HashBits, BucketSize: c.BucketSize}
	case "GSAP":
		return &lz.GSAPConfig{ShrinkSize: c.ShrinkSize, BufferSize: c.BufferSize,
			WindowSize: c.WindowSize, BlockSize: c.BlockSize,
			MinMatchLen: c.MinMatchLen}
	case "OSAP":
		return &lz.OSAPConfig{ShrinkSize: c.ShrinkSize, BufferSize: c.BufferSize,
			WindowSize: c.WindowSize, BlockSize: c.BlockSize,
			MinMatchLen: c.MinMatchLen, MaxMatchLen: c.MaxMatchLen, Cost: c.Cost}
	}
	panic("unknown kind " + c.Kind)
}

const (
	kiB = 1 << 10
	miB = 1 << 20
)

// Completed returns the defaults-completed configuration according to the
// documented rules (the harness's own re-implementation; C20 cross-checks it
// against what the parser reports).
func (c PCfg) Completed() PCfg {
	d := c
	if d.WindowSize == 0 {
		d.WindowSize = 8 * miB
	}
	if d.BufferSize == 0 {
		d.BufferSize = d.WindowSize
	}
	if d.ShrinkSize == 0 {
		if d.BufferSize < 64*kiB {
			d.ShrinkSize = d.BufferSize >> 1
		} else {
			d.ShrinkSize = 32 * kiB
		}
	}
	if d.BlockSize == 0 {
		d.BlockSize = 128 * kiB
	}
	switch c.Kind {
	case "HP", "BHP":
		if d.InputLen == 0 {
			d.InputLen = 3
		}
		if d.HashBits == 0 {
			d.HashBits = 18
		}
	case "BUP":
		if d.InputLen == 0 {
			d.InputLen = 3
		}
		if d.HashBits == 0 {
			d.HashBits = 12
		}
		if d.BucketSize == 0 {
			d.BucketSize = 10
		}
	case "DHP", "BDHP":
		if d.InputLen1 == 0 {
			d.InputLen1 = 3
		}
		if d.HashBits1 == 0 {
			d.HashBits1 = 18
		}
		if d.InputLen2 == 0 {
			if d.InputLen1 < 5 {
				d.InputLen2 = 6
			} else {
				d.InputLen2 = 8
			}
		}
		if d.HashBits2 == 0 {
			d.HashBits2 = 18
		}
	case "GSAP":
		if d.MinMatchLen == 0 {
			d.MinMatchLen = 3
		}
	case "OSAP":
		if d.MinMatchLen == 0 {
			d.MinMatchLen = 3
		}
		if d.MaxMatchLen == 0 {
			d.MaxMatchLen = 273
		}
		if d.Cost == "" {
			d.Cost = "XZCost"
		}
	}
	return d
}

// MinMatch is the parser's minimum match length as stated by C02.
func (c PCfg) MinMatch() int {
	d := c.Completed()
	switch d.Kind {
	case "HP", "BHP", "BUP":
		return minInt(3, d.InputLen)
	case "DHP", "BDHP":
		return minInt(3, d.InputLen1)
	}
	return d.MinMatchLen
}

func (c PCfg) String() string {
	type plain PCfg
	return fmt.Sprintf("%+v", plain(c))
}

// genGeometry draws the four buffer sizes relative to each other. eqShrink
// allows ShrinkSize == BufferSize (accepted by Verify; excluded where the
// property's own text excludes it).
func genGeometry(t *rapid.T, c *PCfg, maxBuf int, eqShrink bool) {
	// BufferSize: mostly a few dozen to a few hundred bytes, mass on tiny
	// values, rarely the default (0 = WindowSize resp. 8 MiB).
	switch weighted(t, "bufKind", 10, 4, 3, 2) {
	case 0:
		c.BufferSize = rapid.IntRange(minInt(16, maxBuf), maxBuf).Draw(t, "bufU")
	case 1:
		c.BufferSize = 1 + genSize(t, "buf", maxBuf-1, 0, 1, 7, 8, 15, 16, 63, 64, 65)
	case 2:
		c.BufferSize = rapid.IntRange(1, 16).Draw(t, "bufTiny")
	default:
		c.BufferSize = 0
	}
	b := c.BufferSize
	if b == 0 {
		b = maxBuf // only to scale the other draws
	}
	switch weighted(t, "winKind", 4, 1, 1, 2, 2, 3, 1, 2, 1, 2) {
	case 9:
		// "no window limit": the largest values Verify accepts (2^32-8 in
		// general, MaxInt32 for GSAP) and their neighbourhood. The window is
		// independent of the buffer, nothing of that size is allocated.
		top := 1<<32 - 8
		if c.Kind == "GSAP" {
			top = 1<<31 - 1
		}
		c.WindowSize = top - rapid.SampledFrom([]int{0, 0, 1, 7, 8, 100, b, b + 1, 2 * b, 1 << 16, 1<<31 - 9}).Draw(t, "winHuge")
		if c.WindowSize < 1 {
			c.WindowSize = top
		}
	case 0:
		c.WindowSize = rapid.IntRange(1, maxInt(b, 1)).Draw(t, "win")
	case 1:
		c.WindowSize = 1
	case 2:
		c.WindowSize = 2
	case 3:
		c.WindowSize = rapid.IntRange(1, 12).Draw(t, "winSmall")
	case 4:
		c.WindowSize = maxInt(b-1, 1)
	case 5:
		c.WindowSize = b
	case 6:
		c.WindowSize = b + 1
	case 7:
		c.WindowSize = 2 * b
	default:
		c.WindowSize = 0
	}
	// effective buffer size after defaults
	eb := c.BufferSize
	if eb == 0 {
		eb = c.WindowSize
		if eb == 0 {
			eb = 8 * miB
		}
	}
	sb := minInt(eb, 4*maxBuf) // scale for the relative draws
	top := eb - 1
	if eqShrink {
		top = eb
	}
	switch weighted(t, "shrKind", 3, 2, 2, 2, 3, 1) {
	case 0:
		c.ShrinkSize = 0
	case 1:
		c.ShrinkSize = minInt(1, top)
	case 2:
		c.ShrinkSize = sb / 2
	case 3:
		c.ShrinkSize = maxInt(minInt(sb-1, top), 0)
	case 4:
		c.ShrinkSize = rapid.IntRange(0, maxInt(minInt(sb, top), 0)).Draw(t, "shr")
	default:
		c.ShrinkSize = maxInt(top, 0)
	}
	switch weighted(t, "blkKind", 5, 2, 1, 2, 2, 1, 1, 1) {
	case 0:
		c.BlockSize = rapid.IntRange(1, maxInt(sb, 1)).Draw(t, "blk")
	case 1:
		c.BlockSize = rapid.IntRange(1, 12).Draw(t, "blkSmall")
	case 2:
		c.BlockSize = 1
	case 3:
		c.BlockSize = maxInt(sb-1, 1)
	case 4:
		c.BlockSize = sb
	case 5:
		c.BlockSize = 2 * sb
	case 6:
		c.BlockSize = 0
	default:
		c.BlockSize = 1<<32 - 8
	}
}

func genHashBits(t *rapid.T, label string, inputLen int) int {
	max := minInt(8*inputLen, 12)
	switch weighted(t, label+"k", 8, 1, 1) {
	case 0:
		return rapid.IntRange(1, max).Draw(t, label)
	case 1:
		if inputLen == 2 {
			// the default of 18 bits is not accepted for InputLen 2
			return 16
		}
		return 0 // default (18 resp. 12)
	default:
		return minInt(8*inputLen, 16)
	}
}

// genPCfg draws a configuration of the given kind that NewParser is expected
// to accept (construction, not rejection). maxBuf scales the buffer size.
func genPCfg(t *rapid.T, kind string, maxBuf int) PCfg {
	return genPCfgOpt(t, kind, maxBuf, false)
}

func genPCfgOpt(t *rapid.T, kind string, maxBuf int, eqShrink bool) PCfg {
	c := PCfg{Kind: kind}
	genGeometry(t, &c, maxBuf, eqShrink)
	switch kind {
	case "BUF":
		// bare ParserBuffer: geometry only
	case "HP", "BHP":
		c.InputLen = rapid.SampledFrom([]int{3, 2, 4, 0, 5, 6, 7, 8}).Draw(t, "inputLen")
		il := c.InputLen
		if il == 0 {
			il = 3
		}
		c.HashBits = genHashBits(t, "hashBits", il)
	case "BUP":
		c.InputLen = rapid.SampledFrom([]int{3, 2, 4, 0, 5, 6, 7, 8}).Draw(t, "inputLen")
		il := c.InputLen
		if il == 0 {
			il = 3
		}
		c.HashBits = genHashBits(t, "hashBits", il)
		if c.HashBits > 12 {
			c.HashBits = 12
		}
		c.BucketSize = rapid.SampledFrom([]int{2, 1, 3, 0, 10, 128}).Draw(t, "bucketSize")
	case "DHP", "BDHP":
		i1 := rapid.IntRange(2, 7).Draw(t, "inputLen1")
		i2 := rapid.IntRange(i1+1, 8).Draw(t, "inputLen2")
		c.InputLen1, c.InputLen2 = i1, i2
		if rapid.IntRange(0, 9).Draw(t, "il1def") == 0 {
			c.InputLen1 = 0 // 3
			if i2 <= 3 {
				c.InputLen2 = 0
			}
			i1 = 3
		}
		if rapid.IntRange(0, 9).Draw(t, "il2def") == 0 {
			c.InputLen2 = 0
			i2 = 6
			if i1 >= 5 {
				i2 = 8
			}
			if i1 >= i2 {
				c.InputLen1, i1 = 4, 4
			}
		}
		c.HashBits1 = genHashBits(t, "hashBits1", i1)
		c.HashBits2 = genHashBits(t, "hashBits2", i2)
	case "GSAP":
		c.MinMatchLen = rapid.SampledFrom([]int{3, 2, 0, 4, 5, 6, 8, 3, 2, 0, 4, 17, 18, 19, 24, 33}).Draw(t, "minMatchLen")
		mm := c.MinMatchLen
		if mm == 0 {
			mm = 3
		}
		w := c.WindowSize
		if w != 0 && w < mm {
			// Verify demands MinMatchLen <= WindowSize
			c.WindowSize = mm
		}
	case "OSAP":
		c.MinMatchLen = rapid.SampledFrom([]int{3, 2, 0, 4, 5, 6, 8, 3, 2, 0, 4, 17, 18, 19, 24, 33}).Draw(t, "minMatchLen")
		mm := c.MinMatchLen
		if mm == 0 {
			mm = 3
		}
		switch weighted(t, "maxKind", 3, 2, 2, 2, 1) {
		case 4:
			// "no limit": anything Verify accepts, also beyond 32 bits
			c.MaxMatchLen = rapid.SampledFrom([]int{1 << 16, 1<<31 - 1, 1 << 31, 1<<32 - 1, 1 << 32, 1<<32 + 5, 1 << 40, 1<<63 - 1}).Draw(t, "maxMatchLenHuge")
		case 0:
			c.MaxMatchLen = mm + rapid.IntRange(0, 20).Draw(t, "maxMatchLen")
		case 1:
			c.MaxMatchLen = mm
		case 2:
			c.MaxMatchLen = 273
		default:
			c.MaxMatchLen = 0
			if mm > 273 {
				c.MaxMatchLen = mm
			}
		}
		switch weighted(t, "costKind", 9, 9, 2) {
		case 1:
			c.Cost = "XZCost"
		case 2:
			// near misses of the one known cost function: whatever
			// NewParser accepts has to work
			c.Cost = rapid.SampledFrom([]string{"xzcost", "XZCOST", "XzCost", "XZCost ", " XZCost", "XZ", "xz", "XZCost\x00"}).Draw(t, "costNear")
		}
	}
	return c
}
