package harness

import (
	"encoding/json"
	"testing"

	"github.com/ulikunitz/lz"
	"pgregory.net/rapid"
)

// Native coverage-guided fuzz targets (thorough tier). The structured ones
// drive the same rapid properties through rapid.MakeFuzz, so a crasher is
// converted into a Case JSON by the property itself (recordFailure) and
// replays through ./check <ID> --replay.

func FuzzC01(f *testing.F) {
	pp := propC01
	pp.fuzzKinds = Kinds
	f.Fuzz(rapid.MakeFuzz(pp.body("", statsFor("C01"))))
}

func FuzzC11(f *testing.F) {
	f.Fuzz(rapid.MakeFuzz(propC11.body("OSAP", statsFor("C11"))))
}

func FuzzC12(f *testing.F) {
	f.Fuzz(rapid.MakeFuzz(propC12.body("GSAP", statsFor("C12"))))
}

func FuzzC05(f *testing.F) {
	st := statsFor("C05")
	dbuf, dec := propC05.body(propC05.vehicles[0], st), propC05.body(propC05.vehicles[1], st)
	f.Fuzz(rapid.MakeFuzz(func(t *rapid.T) {
		if rapid.Bool().Draw(t, "dec") {
			dec(t)
		} else {
			dbuf(t)
		}
	}))
}

func structuredSeeds() [][]byte {
	var seeds [][]byte
	for _, n := range []int{0, 1, 2, 3, 7, 33, 200} {
		seeds = append(seeds, fibWord(n), thueMorse(n), periodDoubling(n), make([]byte, n))
	}
	seeds = append(seeds, deBruijn(2, 6), deBruijn(3, 3), []byte("abracadabra"), []byte("=====foofoobarfoobar bartender===="))
	// blocks of distinct units repeated: exhaust the budget of the rank sort
	for _, k := range []int{8, 40, 100} {
		var x []byte
		for i := 0; i < k; i++ {
			x = append(x, byte(i+1), 0xff, 0x00)
		}
		seeds = append(seeds, append(append([]byte{}, x...), x...), append(append(append([]byte{}, x...), x...), x...))
	}
	// words with periodic stretches, repeated (tandem repeats of the rank sort
	// plus budget exhaustion: the neighbourhood of trPartialCopy), and long
	// uniform binary strings (trHeapSort)
	for sd := uint64(1); sd <= 12; sd++ {
		seeds = append(seeds, periodicWordRepeated(sd))
	}
	for sd := uint64(1); sd <= 3; sd++ {
		b := make([]byte, 2500)
		x := sd
		for i := range b {
			x += 0x9e3779b97f4a7c15
			z := x
			z = (z ^ (z >> 30)) * 0xbf58476d1ce4e5b9
			z = (z ^ (z >> 27)) * 0x94d049bb133111eb
			b[i] = byte((z^(z>>31))>>33) & 1
		}
		seeds = append(seeds, b)
	}
	return seeds
}

// periodicWordRepeated is a deterministic member of the text family "word with
// periodic stretches repeated" (suffixgen.go, family 13).
func periodicWordRepeated(seed uint64) []byte {
	x := seed * 0x2545f4914f6cdd1d
	next := func(n int) int {
		x += 0x9e3779b97f4a7c15
		z := x
		z = (z ^ (z >> 30)) * 0xbf58476d1ce4e5b9
		z = (z ^ (z >> 27)) * 0x94d049bb133111eb
		return int((z ^ (z >> 31)) % uint64(n))
	}
	k := 2 + next(2)
	var w []byte
	for p := 1 + next(3); p > 0; p-- {
		for i := next(30); i > 0; i-- {
			w = append(w, byte(next(k)))
		}
		u := make([]byte, 2+next(5))
		for i := range u {
			u[i] = byte(next(k))
		}
		for j := 6 + next(26); j > 0; j-- {
			w = append(w, u...)
		}
	}
	for i := next(30); i > 0; i-- {
		w = append(w, byte(next(k)))
	}
	reps, rot := 4+next(5), next(len(w))
	total := len(w)*reps - next(4)
	out := make([]byte, total)
	for i := range out {
		out[i] = w[(rot+i)%len(w)]
	}
	return out
}

// FuzzC09: raw bytes are the text.
func FuzzC09(f *testing.F) {
	for _, s := range structuredSeeds() {
		f.Add(s)
	}
	st := statsFor("C09")
	f.Fuzz(func(t *testing.T, text []byte) {
		if len(text) > 1<<16 {
			return
		}
		// the watchdog covers a Sort that never returns
		beginCase("C09", "fuzz", func() any { return textCase{Text: cloneBytes(text), Family: "fuzz"} })
		defer endCase()
		if msg, bad := checkSuffix(text); bad {
			c := textCase{Text: cloneBytes(text), Family: "fuzz"}
			recordFailure("C09", "fuzz", c, msg)
			t.Fatalf("C09 violated: %s", msg)
		}
		st.eval([]string{"fuzz"}, sharedBStarSubstrings(text), hashBytes(text), "fuzz", func() any {
			return textCase{Text: cloneBytes(text), Family: "fuzz"}
		})
	})
}

// FuzzC10: the first two bytes select minLen and maxLen, the rest is the text.
func FuzzC10(f *testing.F) {
	for _, s := range structuredSeeds() {
		f.Add(append([]byte{0, 3}, s...))
		f.Add(append([]byte{2, 255}, s...))
	}
	st := statsFor("C10")
	f.Fuzz(func(t *testing.T, data []byte) {
		if len(data) < 2 || len(data) > 130 {
			return
		}
		text := data[2:]
		c := segCase{Text: cloneBytes(text), MinLen: int(data[0]) % (len(text) + 2), LibSA: data[1]&1 == 1}
		c.MaxLen = c.MinLen + int(data[1]>>1)%(len(text)+2)
		msg, bad, nt := checkSegCase(c)
		if bad {
			recordFailure("C10", "fuzz", c, msg)
			t.Fatalf("C10 violated: %s", msg)
		}
		st.eval([]string{"fuzz"}, nt, hashJSON(c), "fuzz", func() any { return c })
	})
}

// FuzzC20: arbitrary byte strings through ParseJSON and the seven
// UnmarshalJSON methods: no panic; whatever is accepted round-trips.
func FuzzC20(f *testing.F) {
	for _, k := range Kinds {
		b, _ := json.Marshal(PCfg{Kind: k}.LZ())
		f.Add(b)
	}
	f.Add([]byte(`{"Type":"HP","InputLen":3,"HashBits":-1}`))
	f.Add([]byte(`{"Type":"OSAP","Cost":"\ud800"}`))
	f.Add([]byte(`{"Type":1}`))
	st := statsFor("C20")
	f.Fuzz(func(t *testing.T, doc []byte) {
		c := docCase{Doc: cloneBytes(doc)}
		if msg, bad := checkDoc(c); bad {
			recordFailure("C20", "fuzz", c, msg)
			t.Fatalf("C20 violated: %s", msg)
		}
		accepted := false
		if cfg, err := lz.ParseJSON(doc); err == nil && cfg != nil {
			accepted = true
			b, err := json.Marshal(cfg)
			if err != nil {
				recordFailure("C20", "fuzz", c, "accepted document cannot be marshalled: "+err.Error())
				t.Fatalf("C20 violated: accepted document cannot be marshalled: %v", err)
			}
			back, err := lz.ParseJSON(b)
			if err != nil || !jsonEqualCfg(back, cfg) {
				recordFailure("C20", "fuzz", c, "accepted document does not round-trip")
				t.Fatalf("C20 violated: accepted document %q does not round-trip: %v", doc, err)
			}
		}
		for _, k := range Kinds {
			_ = json.Unmarshal(doc, PCfg{Kind: k}.LZ())
		}
		st.eval([]string{"fuzz-doc"}, accepted, hashBytes(doc), "fuzz", func() any { return c })
	})
}

func jsonEqualCfg(a, b lz.ParserConfig) bool {
	x, err1 := json.Marshal(a)
	y, err2 := json.Marshal(b)
	return err1 == nil && err2 == nil && string(x) == string(y)
}
