package harness

import (
	"bytes"
	"encoding/json"
	"fmt"
	"os"
	"testing"

	"github.com/ulikunitz/lz"
	"pgregory.net/rapid"
)

// Volume: one parser instance is fed more than 2^32 bytes (a periodic stream,
// written in chunks, parsed or skipped, shrunk, thousands of times). The model
// is three numbers - bytes written, parse position, start of the buffer - and
// the pattern; it never holds the stream. Absolute offsets (ReadAt, ByteAt)
// are probed all the way, densely around 2^31 and 2^32; blocks that are really
// parsed are expanded by a reference decoder that keeps the last 1 MiB only.

type volumeCase struct {
	Cfg     PCfg `json:"cfg"`
	Period  int  `json:"period"`
	Seed    int  `json:"seed"`
	Chunk   int  `json:"chunk"`
	Beyond  int  `json:"beyond"`  // bytes behind 2^32
	ParseAt int  `json:"parseAt"` // real Parse calls within this many MiB of 2^31 and 2^32 (0: Parse(nil) only)
	// Run: the stream is one byte repeated (Period is ignored), every block
	// is really parsed and has to obey the run clause of C19; the expansion
	// is compared within ParseAt MiB of 2^31 and 2^32.
	Run bool `json:"run,omitempty"`
}

func volumePattern(period, seed int) []byte {
	pat := make([]byte, period)
	x := uint64(seed)*0x9e3779b97f4a7c15 + 12345
	for i := range pat {
		x ^= x << 13
		x ^= x >> 7
		x ^= x << 17
		pat[i] = byte(x >> 24)
		if i%7 == 3 {
			pat[i] = byte('a' + i%3) // some short-range repetition
		}
	}
	return pat
}

func checkVolume(c volumeCase) (msg string, bad bool) {
	defer func() {
		if r := recover(); r != nil {
			msg, bad = fmt.Sprintf("panic: %v", r), true
		}
	}()
	var p lz.Parser
	var err error
	if c.Cfg.Kind == "BUF" {
		p, err = newBufParser(c.Cfg)
	} else {
		p, err = c.Cfg.LZ().NewParser()
	}
	if err != nil {
		return "", false
	}
	bc := p.BufferConfig()
	pat := volumePattern(c.Period, c.Seed)
	if c.Run {
		pat = []byte{byte('a' + c.Seed%3)}
	}
	var big []byte
	for len(big) < maxInt(c.Chunk, 1<<20)+2*len(pat)+8192 {
		big = append(big, pat...)
	}
	at := func(off int64, n int) []byte { // the stream bytes [off, off+n)
		s := int(off % int64(len(pat)))
		return big[s : s+n]
	}
	total := int64(1)<<32 + int64(c.Beyond)
	var pos, w, start int64 // written, parsed, start of buffer
	const histLen = 1 << 20
	hist := make([]byte, 0, 2*histLen) // the last bytes of the expansion of parsed blocks
	var histEnd int64                  // stream offset behind hist
	near := func(x int64) bool {
		for _, m := range []int64{1 << 31, 1 << 32} {
			if d := x - m; d > -int64(c.ParseAt)<<20 && d < int64(c.ParseAt)<<20 {
				return true
			}
		}
		return false
	}
	probe := func(what string) (string, bool) {
		buf := make([]byte, 4096)
		for _, off := range []int64{start, start + 1, (start + pos) / 2, pos - 4096, pos - 1} {
			if off < start || off >= pos {
				continue
			}
			n, err := p.ReadAt(buf, off)
			want := int(minInt64(4096, pos-off))
			if n != want || (err != nil && n == len(buf)) {
				return fmt.Sprintf("%s: ReadAt(4096 bytes, %d) = (%d, %v) with the buffer holding [%d,%d)", what, off, n, err, start, pos), true
			}
			if !bytes.Equal(buf[:n], at(off, n)) {
				return fmt.Sprintf("%s: ReadAt(%d) delivers bytes that are not the stream at that offset (buffer [%d,%d))", what, off, start, pos), true
			}
			b, err := p.ByteAt(off)
			if err != nil || b != at(off, 1)[0] {
				return fmt.Sprintf("%s: ByteAt(%d) = (%#x, %v), the stream has %#x there (buffer [%d,%d))", what, off, b, err, at(off, 1)[0], start, pos), true
			}
		}
		if _, err := p.ByteAt(pos); err != lz.ErrEndOfBuffer {
			return fmt.Sprintf("%s: ByteAt(end of data %d) = %v; want ErrEndOfBuffer", what, pos, err), true
		}
		for _, off := range []int64{start - 1, pos + 1, pos - 1<<32, start - 1<<32, pos + 1<<32, pos - 1<<31} {
			if off >= start && off <= pos {
				continue
			}
			if _, err := p.ByteAt(off); err != lz.ErrOutOfBuffer {
				return fmt.Sprintf("%s: ByteAt(%d) = %v with the buffer holding [%d,%d); want ErrOutOfBuffer", what, off, err, start, pos), true
			}
			if n, err := p.ReadAt(buf[:8], off); n != 0 || err == nil {
				return fmt.Sprintf("%s: ReadAt(%d) = (%d, %v) with the buffer holding [%d,%d); want an error", what, off, n, err, start, pos), true
			}
		}
		return "", false
	}
	var blk lz.Block
	nextProbe := int64(0)
	for pos < total {
		n := c.Chunk
		if rem := total - pos; int64(n) > rem {
			n = int(rem)
		}
		k, err := p.Write(at(pos, n))
		if k < 0 || k > n || (err != nil && err != lz.ErrFullBuffer) || (err == nil && k != n) {
			return fmt.Sprintf("Write of %d bytes at stream offset %d = (%d, %v)", n, pos, k, err), true
		}
		if int(pos-start)+k > bc.BufferSize {
			return fmt.Sprintf("Write at stream offset %d: the buffer now holds %d bytes, BufferSize is %d", pos, int(pos-start)+k, bc.BufferSize), true
		}
		pos += int64(k)
		// consume everything
		for w < pos {
			real := (c.ParseAt > 0 && near(w)) || c.Run
			var m int
			if real {
				m, err = p.Parse(&blk, 0)
			} else {
				m, err = p.Parse(nil, 0)
			}
			if err != nil || m < 1 || int64(m) > pos-w || m > bc.BlockSize {
				return fmt.Sprintf("Parse at stream offset %d (%d unparsed, BlockSize %d) = (%d, %v)", w, pos-w, bc.BlockSize, m, err), true
			}
			if c.Run && m >= 32 && len(blk.Literals) > 1 {
				return fmt.Sprintf("run clause: block at stream offset %d (%d bytes inside a run of %#x that began at offset 0) carries %d literal bytes in %d sequences; at most 1 allowed",
					w, m, pat[0], len(blk.Literals), len(blk.Sequences)), true
			}
			if real && (!c.Run || near(w)) {
				if histEnd != w {
					// the history restarts here: take it from the stream
					hist = append(hist[:0], at(maxInt64(w-histLen, 0), int(minInt64(histLen, w)))...)
					histEnd = w
				}
				if msg, bad := expandInto(&hist, blk, bc.WindowSize); bad {
					return fmt.Sprintf("block at stream offset %d: %s", w, msg), true
				}
				got := hist[len(hist)-minInt(m, len(hist)):]
				histEnd += int64(m)
				if len(got) != m || !bytes.Equal(got, at(w, m)) {
					return fmt.Sprintf("block at stream offset %d (n=%d) does not expand to the %d bytes of the stream there", w, m, m), true
				}
				if len(hist) > 2*histLen-1<<17 {
					hist = append(hist[:0], hist[len(hist)-histLen:]...)
				}
			}
			w += int64(m)
		}
		if _, err := p.Parse(nil, 0); err != lz.ErrEmptyBuffer {
			return fmt.Sprintf("Parse(nil) on a drained buffer at stream offset %d = %v", w, err), true
		}
		if pos >= nextProbe || near(pos) {
			if msg, bad := probe(fmt.Sprintf("after %d bytes", pos)); bad {
				return msg, true
			}
			nextProbe = pos + 64<<20
		}
		d := p.Shrink()
		wantD := int(w-start) - bc.ShrinkSize
		if wantD < 0 {
			wantD = 0
		}
		if d != wantD {
			return fmt.Sprintf("Shrink at stream offset %d (parse position %d bytes into the buffer, ShrinkSize %d) = %d; want %d", pos, w-start, bc.ShrinkSize, d, wantD), true
		}
		start += int64(d)
		if near(pos) {
			if msg, bad := probe(fmt.Sprintf("after %d bytes and Shrink", pos)); bad {
				return msg, true
			}
		}
	}
	return "", false
}

// expandInto appends the expansion of blk to *hist (which holds the bytes in
// front of the block, at least a window of them or everything since the start).
func expandInto(hist *[]byte, blk lz.Block, window int) (string, bool) {
	h := *hist
	lits := blk.Literals
	for i, s := range blk.Sequences {
		if int(s.LitLen) > len(lits) {
			return fmt.Sprintf("seq %d: LitLen %d beyond the literals", i, s.LitLen), true
		}
		h = append(h, lits[:s.LitLen]...)
		lits = lits[s.LitLen:]
		if s.Offset == 0 || int(s.Offset) > len(h) || int(s.Offset) > window {
			return fmt.Sprintf("seq %d: Offset %d with %d bytes of history kept (window %d)", i, s.Offset, len(h), window), true
		}
		for k := 0; k < int(s.MatchLen); k++ {
			h = append(h, h[len(h)-int(s.Offset)])
		}
	}
	h = append(h, lits...)
	*hist = h
	return "", false
}

func maxInt64(a, b int64) int64 {
	if a > b {
		return a
	}
	return b
}

func TestC15Volume(t *testing.T) {
	st := statsFor("C15")
	kinds := []string{"BUF"}
	if os.Getenv("VERIF_VOLUME_PARSERS") == "1" {
		kinds = []string{"BUF", "HP", "BHP", "DHP", "BDHP", "BUP"}
	}
	rapid.Check(t, func(t *rapid.T) {
		c := volumeCase{
			Period: rapid.SampledFrom([]int{65521, 251, 4099, 100_003, 1 << 16}).Draw(t, "period"),
			Seed:   rapid.IntRange(0, 1000).Draw(t, "seed"),
			Beyond: rapid.SampledFrom([]int{1, 70_000, 3 << 20}).Draw(t, "beyond"),
		}
		c.Cfg.Kind = rapid.SampledFrom(kinds).Draw(t, "kind")
		c.Cfg.BufferSize = rapid.SampledFrom([]int{1 << 20, 65536, 300_000, 8 << 20, 1<<20 + 7}).Draw(t, "buf")
		c.Cfg.ShrinkSize = rapid.SampledFrom([]int{0, 1024, 1, c.Cfg.BufferSize / 2}).Draw(t, "shr")
		c.Cfg.WindowSize = rapid.SampledFrom([]int{c.Cfg.BufferSize, 65536, 4096}).Draw(t, "win")
		c.Cfg.BlockSize = rapid.SampledFrom([]int{0, 65536, 100_000}).Draw(t, "blk")
		c.Chunk = rapid.SampledFrom([]int{c.Cfg.BufferSize, c.Cfg.BufferSize/2 + 1, 65536, 1<<20 + 1}).Draw(t, "chunk")
		if c.Cfg.Kind != "BUF" {
			c.ParseAt = rapid.SampledFrom([]int{2, 8}).Draw(t, "parseAt")
			switch c.Cfg.Kind {
			case "DHP", "BDHP":
				c.Cfg.HashBits1, c.Cfg.HashBits2 = 14, 15
			default:
				c.Cfg.HashBits = 14
			}
		}
		beginCase("C15", "volume", func() any { return c })
		defer endCase()
		msg, bad := checkVolume(c)
		endCase()
		if bad {
			recordFailure("C15", "volume", c, msg)
			t.Fatalf("C15 violated (volume): %s", msg)
		}
		st.eval([]string{"volume:>2^32-bytes-through-one-instance", "volume:" + c.Cfg.Kind}, true, hashJSON(c), "volume", func() any { return c })
	})
}

// TestC19Volume: a run of one byte of more than 2^32 bytes through one parser
// instance, every block really parsed: the run clause of C19 has to hold in
// every block, also where the stream position passes 2^31 and 2^32.
func TestC19Volume(t *testing.T) {
	st := statsFor("C19")
	for _, kind := range kindsFromEnv([]string{"HP", "BHP", "DHP", "BDHP", "BUP"}) {
		kind := kind
		t.Run(kind, func(t *testing.T) {
			rapid.Check(t, func(t *rapid.T) {
				decorrelate(t, kind)
				c := volumeCase{Run: true, Seed: rapid.IntRange(0, 2).Draw(t, "seed"), ParseAt: 2,
					Beyond: rapid.SampledFrom([]int{3 << 20, 1 << 20, 70_000}).Draw(t, "beyond")}
				c.Cfg.Kind = kind
				c.Cfg.BufferSize = rapid.SampledFrom([]int{1 << 20, 8 << 20, 300_000, 1<<20 + 7}).Draw(t, "buf")
				c.Cfg.ShrinkSize = rapid.SampledFrom([]int{0, 1024, c.Cfg.BufferSize / 2}).Draw(t, "shr")
				c.Cfg.WindowSize = rapid.SampledFrom([]int{c.Cfg.BufferSize, 65536, 4096}).Draw(t, "win")
				c.Cfg.BlockSize = rapid.SampledFrom([]int{0, 65536, 100_000}).Draw(t, "blk")
				c.Chunk = rapid.SampledFrom([]int{c.Cfg.BufferSize, c.Cfg.BufferSize/2 + 1, 1<<20 + 1}).Draw(t, "chunk")
				switch kind {
				case "DHP", "BDHP":
					c.Cfg.HashBits1, c.Cfg.HashBits2 = 14, 15
				default:
					c.Cfg.HashBits = 14
				}
				beginCase("C19", "volume-"+kind, func() any { return c })
				defer endCase()
				msg, bad := checkVolume(c)
				endCase()
				if bad {
					recordFailure("C19", "volume-"+kind, c, msg)
					t.Fatalf("C19 violated (volume, %s): %s", kind, msg)
				}
				st.eval([]string{"volume:run>2^32-bytes", "kind:" + kind}, true, hashJSON(c), "volume-"+kind, func() any { return c })
			})
		})
	}
}

// volumeReplay tells whether raw is a volume case and, if so, runs it.
func volumeReplay(raw json.RawMessage) (msg string, bad bool, is bool) {
	var probe struct {
		Chunk *int `json:"chunk"`
	}
	var big struct {
		Kind *string `json:"bigBufferKind"`
	}
	if err := json.Unmarshal(raw, &big); err == nil && big.Kind != nil {
		var c bigBufferCase
		if err := json.Unmarshal(raw, &c); err != nil {
			return "", false, false
		}
		msg, bad = checkBigBuffer(c)
		return msg, bad, true
	}
	if err := json.Unmarshal(raw, &probe); err != nil || probe.Chunk == nil {
		return "", false, false
	}
	var c volumeCase
	if err := json.Unmarshal(raw, &c); err != nil {
		return "", false, false
	}
	msg, bad = checkVolume(c)
	return msg, bad, true
}

func init() {
	for _, prop := range []string{"C15", "C19"} {
		prev := replayers[prop]
		replayers[prop] = func(raw json.RawMessage) (string, bool, error) {
			if msg, bad, is := volumeReplay(raw); is {
				return msg, bad, nil
			}
			return prev(raw)
		}
	}
}

// TestC19BigBuffer: more than 2 GiB BUFFERED at once (BufferSize 2^31 + 128 KiB,
// handed over with Reset so that the parser adopts the slice): a run of one
// byte, skipped with Parse(nil) up to a little behind buffer position 2^31,
// then parsed in small blocks. The blocks behind 2^31 lie inside the run and
// have to obey the run clause. (2 GiB of memory and about 10 s per parser.)
func TestC19BigBuffer(t *testing.T) {
	st := statsFor("C19")
	for _, kind := range kindsFromEnv([]string{"BUP", "HP"}) {
		kind := kind
		t.Run(kind, func(t *testing.T) {
			rapid.Check(t, func(t *rapid.T) {
				decorrelate(t, kind)
				c := bigBufferCase{Kind: kind,
					Beyond: rapid.SampledFrom([]int{4096 + 64, 65536, 20_000}).Draw(t, "beyond"),
					Window: rapid.SampledFrom([]int{1 << 16, 4096, 1 << 20}).Draw(t, "window"),
					Byte:   rapid.SampledFrom([]byte{'a', 0, 0xff}).Draw(t, "byte"),
					Over:   rapid.SampledFrom([]int{32, 70, 500, 4000}).Draw(t, "over")}
				markRunning("C19", "bigbuffer-"+kind, c, "the process ended while this case ran")
				beginCase("C19", "bigbuffer-"+kind, func() any { return c })
				defer endCase()
				msg, bad := checkBigBuffer(c)
				endCase()
				clearRunning("C19", "bigbuffer-"+kind)
				if bad {
					recordFailure("C19", "bigbuffer-"+kind, c, msg)
					t.Fatalf("C19 violated (big buffer, %s): %s", kind, msg)
				}
				st.eval([]string{"big-buffer:>2GiB-buffered", "kind:" + kind}, true, hashJSON(c), "bigbuffer-"+kind, func() any { return c })
			})
		})
	}
}

type bigBufferCase struct {
	Kind   string `json:"bigBufferKind"`
	Beyond int    `json:"beyond"`
	Window int    `json:"window"`
	Byte   byte   `json:"byte"`
	// Over: the skipped blocks have 2^30 + Over bytes, the parsed part starts
	// at buffer position 2^31 + 2*Over.
	Over int `json:"over"`
}

var bigBufferArray []byte

func checkBigBuffer(c bigBufferCase) (msg string, bad bool) {
	defer func() {
		if r := recover(); r != nil {
			msg, bad = fmt.Sprintf("panic: %v", r), true
		}
	}()
	const mark = 1 << 31
	total := mark + 2*c.Over + c.Beyond
	cfg := PCfg{Kind: c.Kind, BufferSize: mark + 1<<17, WindowSize: c.Window, BlockSize: 1<<30 + c.Over}
	if total > cfg.BufferSize {
		return "", false // not a case: the text does not fit
	}
	switch c.Kind {
	case "DHP", "BDHP":
		cfg.HashBits1, cfg.HashBits2 = 14, 15
	default:
		cfg.HashBits = 14
	}
	p, err := cfg.LZ().NewParser()
	if err != nil {
		return "", false
	}
	if cap(bigBufferArray) < mark+1<<17+8 {
		bigBufferArray = make([]byte, mark+1<<17+8)
	}
	data := bigBufferArray[:total]
	if data[0] != c.Byte || data[total-1] != c.Byte {
		for i := range bigBufferArray {
			bigBufferArray[i] = c.Byte
		}
	}
	if err := p.Reset(data); err != nil {
		return fmt.Sprintf("Reset(%d bytes) with BufferSize %d: %v", total, cfg.BufferSize, err), true
	}
	w := 0
	// skip to 64 bytes behind the mark
	for k := 0; k < 2; k++ {
		n, err := p.Parse(nil, 0)
		if err != nil || n != cfg.BlockSize {
			return fmt.Sprintf("Parse(nil) at buffer position %d = (%d, %v); want BlockSize %d", w, n, err, cfg.BlockSize), true
		}
		w += n
	}
	// a small block sized so that the next one starts 64 bytes behind the mark
	// cannot be asked for: BlockSize is fixed. Parse what is left in blocks.
	var blk lz.Block
	for w < total {
		n, err := p.Parse(&blk, 0)
		if err != nil || n < 1 || n > total-w {
			return fmt.Sprintf("Parse at buffer position %d (%d unparsed) = (%d, %v)", w, total-w, n, err), true
		}
		if n >= 32 && len(blk.Literals) > 1 {
			return fmt.Sprintf("run clause: block at buffer position %d (%d bytes inside a run of %#x that began at position 0, window %d) carries %d literal bytes in %d sequences; at most 1 allowed",
				w, n, c.Byte, c.Window, len(blk.Literals), len(blk.Sequences)), true
		}
		pos := w
		for i, s := range blk.Sequences {
			pos += int(s.LitLen)
			if s.Offset == 0 || int(s.Offset) > c.Window || int(s.Offset) > pos {
				return fmt.Sprintf("block at buffer position %d, seq %d: Offset %d (window %d, position %d)", w, i, s.Offset, c.Window, pos), true
			}
			pos += int(s.MatchLen)
		}
		if pos+len(blk.Literals)-litSum(blk.Sequences) != w+n {
			return fmt.Sprintf("block at buffer position %d: n=%d but the block stands for %d bytes", w, n, pos+len(blk.Literals)-litSum(blk.Sequences)-w), true
		}
		w += n
	}
	return "", false
}

func litSum(seqs []lz.Seq) int {
	n := 0
	for _, s := range seqs {
		n += int(s.LitLen)
	}
	return n
}
