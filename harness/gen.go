package harness

import (
	"pgregory.net/rapid"
)

// weighted draws an index with the given weights. Index 0 should be the
// simplest alternative (rapid shrinks towards small values).
func weighted(t *rapid.T, label string, weights ...int) int {
	total := 0
	for _, w := range weights {
		total += w
	}
	x := rapid.IntRange(0, total-1).Draw(t, label)
	for i, w := range weights {
		if x < w {
			return i
		}
		x -= w
	}
	return len(weights) - 1
}

// genSize draws a size in [0,max] with mass on small values (geometric by
// drawing a bit length first) and explicit mass on the special values.
func genSize(t *rapid.T, label string, max int, specials ...int) int {
	if max <= 0 {
		return 0
	}
	if len(specials) > 0 && rapid.IntRange(0, 3).Draw(t, label+"?sp") == 3 {
		v := rapid.SampledFrom(specials).Draw(t, label+"sp")
		if v < 0 {
			v = 0
		}
		if v > max {
			v = max
		}
		return v
	}
	bl := 0
	for 1<<bl <= max {
		bl++
	}
	k := rapid.IntRange(0, bl).Draw(t, label+"bits")
	hi := 1<<k - 1
	if hi > max {
		hi = max
	}
	return rapid.IntRange(0, hi).Draw(t, label)
}

// genAlphabet draws a small alphabet. 0x00 (equal to the empty hash entry) and
// 0xff have explicit mass.
func genAlphabet(t *rapid.T, label string) []byte {
	n := rapid.IntRange(1, 4).Draw(t, label+"n")
	a := make([]byte, n)
	for i := range a {
		switch weighted(t, label+"k", 3, 3, 2, 1, 2) {
		case 0:
			a[i] = byte('a' + i)
		case 1:
			a[i] = 0
		case 2:
			a[i] = 0xff
		case 3:
			a[i] = byte(i)
		default:
			a[i] = rapid.Byte().Draw(t, label+"b")
		}
	}
	return a
}

// genText draws a text as a list of segments (runs, periodic stretches, copies
// of earlier parts, words from a tiny dictionary, random stretches over a small
// or the full alphabet). A segment costs a few draws, not one draw per byte, so
// shrinking removes or shortens whole segments. specials are lengths with
// explicit mass (block size, buffer size, ...).
func genText(t *rapid.T, label string, maxLen int, specials ...int) []byte {
	if maxLen <= 0 {
		return nil
	}
	alpha := genAlphabet(t, label+".alpha")
	nseg := 1 + rapid.IntRange(0, 9).Draw(t, label+".nseg")
	if rapid.IntRange(0, 19).Draw(t, label+".empty") == 19 {
		nseg = 0
	}
	var out []byte
	var words [][]byte
	sp := append([]int{0, 1, 2, 7, 8, 9, 16, 17}, specials...)
	for s := 0; s < nseg && len(out) < maxLen; s++ {
		room := maxLen - len(out)
		var n int
		if rapid.Bool().Draw(t, label+".lenU") {
			n = minInt(room, 4+rapid.IntRange(0, 92).Draw(t, label+".lenu"))
		} else {
			n = genSize(t, label+".len", room, sp...)
		}
		switch weighted(t, label+".kind", 3, 3, 3, 2, 3, 1, 3) {
		case 6: // uniform over 2..16 letters, expanded from one drawn seed
			// (rapid's own small integers favour the low values, so the
			// stretches of kind 1 are far from uniform: they are full of
			// matches; these have few, at unpredictable places)
			k := rapid.SampledFrom([]int{2, 3, 4, 8, 16}).Draw(t, label+".uk")
			x := rapid.Uint64().Draw(t, label+".useed")
			for i := 0; i < n; i++ {
				x += 0x9e3779b97f4a7c15
				z := x
				z = (z ^ (z >> 30)) * 0xbf58476d1ce4e5b9
				z = (z ^ (z >> 27)) * 0x94d049bb133111eb
				v := int((z ^ (z >> 31)) >> 33 % uint64(k))
				if v < len(alpha) {
					out = append(out, alpha[v])
				} else {
					out = append(out, byte('k'+v))
				}
			}
		case 0: // run
			c := alpha[rapid.IntRange(0, len(alpha)-1).Draw(t, label+".c")]
			for i := 0; i < n; i++ {
				out = append(out, c)
			}
		case 1: // random over the small alphabet
			for i := 0; i < n; i++ {
				out = append(out, alpha[rapid.IntRange(0, len(alpha)-1).Draw(t, label+".r")])
			}
		case 2: // copy from earlier output (may overlap)
			if len(out) == 0 {
				out = append(out, alpha[0])
				continue
			}
			o := 1 + genSize(t, label+".off", len(out)-1, 0, 1, 2, 7, 8)
			for i := 0; i < n; i++ {
				out = append(out, out[len(out)-o])
			}
		case 3: // periodic
			u := rapid.IntRange(1, 5).Draw(t, label+".ulen")
			unit := make([]byte, u)
			for i := range unit {
				unit[i] = alpha[rapid.IntRange(0, len(alpha)-1).Draw(t, label+".u")]
			}
			for i := 0; i < n; i++ {
				out = append(out, unit[i%u])
			}
		case 4: // words
			if len(words) == 0 {
				nw := rapid.IntRange(2, 3).Draw(t, label+".nw")
				for w := 0; w < nw; w++ {
					wl := rapid.IntRange(2, 9).Draw(t, label+".wl")
					wd := make([]byte, wl)
					for i := range wd {
						wd[i] = alpha[rapid.IntRange(0, len(alpha)-1).Draw(t, label+".wb")]
					}
					words = append(words, wd)
				}
			}
			for len(out) < maxLen && n > 0 {
				wd := words[rapid.IntRange(0, len(words)-1).Draw(t, label+".w")]
				if len(wd) > maxLen-len(out) {
					wd = wd[:maxLen-len(out)]
				}
				out = append(out, wd...)
				n -= len(wd)
			}
		default: // incompressible
			if n > 64 {
				n = 64
			}
			for i := 0; i < n; i++ {
				out = append(out, rapid.Byte().Draw(t, label+".x"))
			}
		}
	}
	if len(out) > maxLen {
		out = out[:maxLen]
	}
	return out
}

// genNoisyText draws a text with many distinct n-grams: stretches of
// pseudo-random bytes over all 256 values (a pure function of one drawn seed)
// interleaved with copies of earlier stretches, so that matches exist but hash
// tables of different sizes see different collisions.
func genNoisyText(t *rapid.T, label string, maxLen int) []byte {
	if maxLen <= 0 {
		return nil
	}
	n := maxLen - rapid.IntRange(0, maxLen*3/4).Draw(t, label+".short")
	x := rapid.Uint64().Draw(t, label+".seed")
	next := func() uint64 {
		x += 0x9e3779b97f4a7c15
		z := x
		z = (z ^ (z >> 30)) * 0xbf58476d1ce4e5b9
		z = (z ^ (z >> 27)) * 0x94d049bb133111eb
		return z ^ (z >> 31)
	}
	copyEvery := rapid.IntRange(8, 60).Draw(t, label+".copyEvery")
	out := make([]byte, 0, n)
	for len(out) < n {
		r := next()
		k := 1 + int(r%uint64(copyEvery))
		for i := 0; i < k && len(out) < n; i++ {
			out = append(out, byte(next()>>24))
		}
		if len(out) > 8 {
			r = next()
			src := int(r % uint64(len(out)-3))
			l := 3 + int((r>>32)%14)
			for i := 0; i < l && len(out) < n && src+i < len(out); i++ {
				out = append(out, out[src+i])
			}
		}
	}
	return out
}
