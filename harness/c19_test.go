package harness

import (
	"bytes"
	"encoding/json"
	"testing"

	"pgregory.net/rapid"
)

// ---------------------------------------------------------------- C19 (a), (b): maximality

var propC19 = parserProp{
	prop:   "C19",
	maxBuf: 400,
	opts: func(kind string) histOpts {
		o := defaultHistOpts()
		o.maxText = 900
		o.triplePct = 15
		return o
	},
	classify: func(x *parserExec) ([]string, bool) {
		var cl []string
		if x.longMatchEndsEarly {
			cl = append(cl, "match>8-ending-before-block-end")
		}
		if x.backwardChecked > 0 {
			cl = append(cl, "literal-before-match-with-buffered-source")
		}
		if x.nMatches > 0 {
			cl = append(cl, "has-match")
		}
		return cl, x.longMatchEndsEarly || x.backwardChecked > 0
	},
}

func TestC19(t *testing.T) { propC19.run(t, []string{"HP", "BHP", "DHP", "BDHP", "BUP", "GSAP"}) }

// ---------------------------------------------------------------- C19 (c): runs

// runLiteralBound is the number of literal bytes C19 allows in a block of at
// least 32 bytes inside a run; -1 if the clause does not apply.
func runLiteralBound(cc PCfg) int {
	switch cc.Kind {
	case "GSAP", "OSAP":
		if cc.MinMatchLen > 8 {
			return -1
		}
		return cc.MinMatchLen
	}
	return 1
}

// checkRunBlocks applies the run clause to the recorded blocks.
func checkRunBlocks(x *parserExec) {
	bound := runLiteralBound(x.cc)
	if bound < 0 {
		return
	}
	for i, b := range x.blocks {
		if b.N < 32 || b.Flags != 0 {
			continue
		}
		seg := b.Fed[b.W : b.W+b.N]
		c := seg[0]
		same := true
		for _, v := range seg {
			if v != c {
				same = false
				break
			}
		}
		if !same {
			continue
		}
		x.runBlocks++
		if b.W > 0 && x.shrinkPos > 0 {
			x.runBlocksAfterShrink++
		}
		if len(b.Lits) > bound && x.cc.Kind == "GSAP" && !strictKnown() && gsapOutOfWindowNeighbours(x.cc, b) {
			// Known finding D18: GSAP consults only the two suffix array
			// neighbours of a position; when the better one lies outside
			// the window (buffered history older than the window) the
			// position becomes a literal although offset 1 would match.
			x.excludedD18++
			continue
		}
		if len(b.Lits) > bound && !strictKnown() && runTailBehindOldSource(x.cc, b, bound) {
			// Known finding D22: the last match of the block copies from an
			// older run and ends where that source ends, one or two bytes
			// in front of the block end; bytes that are fewer than a
			// minimum match cannot become a sequence any more.
			x.excludedD22++
			continue
		}
		if len(b.Lits) > bound {
			x.report("C19", "block %d at stream position %d (%d bytes, all %#x) carries %d literal bytes; at most %d allowed (%d sequences)",
				i, b.W, b.N, c, len(b.Lits), bound, len(b.Seqs))
			return
		}
	}
}

// runTailBehindOldSource delimits the known finding D22 (hash parsers). It
// tells whether everything beyond the allowed literal bytes of the block is a
// tail of fewer bytes than the parser's (short) hash covers - positions it
// cannot search any more - behind the last match, and
// that match - taken from a candidate in an older run of the same byte - could
// not be extended: the byte behind its source is not the run byte.
func runTailBehindOldSource(cc PCfg, b blockRec, bound int) bool {
	switch cc.Kind {
	case "HP", "BHP", "DHP", "BDHP", "BUP":
	default:
		return false
	}
	if len(b.Seqs) == 0 {
		return false
	}
	covered := 0
	for _, s := range b.Seqs {
		covered += int(s.LitLen) + int(s.MatchLen)
	}
	tail := b.N - covered
	// what the parser cannot search any more: positions with fewer bytes left
	// in the block than its (short) hash covers, at least a minimum match
	unsearchable := cc.MinMatch()
	switch d := cc.Completed(); cc.Kind {
	case "HP", "BHP", "BUP":
		unsearchable = maxInt(unsearchable, d.InputLen)
	case "DHP", "BDHP":
		unsearchable = maxInt(unsearchable, d.InputLen1)
	}
	if tail < 1 || tail >= unsearchable || len(b.Lits)-tail > bound {
		return false
	}
	last := b.Seqs[len(b.Seqs)-1]
	end := b.W + covered // absolute position behind the last match
	src := end - int(last.Offset)
	return src >= 0 && src < len(b.Fed) && b.Fed[src] != b.Fed[b.W]
}

// gsapOutOfWindowNeighbours delimits the known finding D18. It tells whether
// the block has a literal position at which GSAP's documented rule (the better
// of the two nearest earlier suffixes in suffix array order, the nearer one on
// a tie, lengths clipped at the block end) selects a source that is outside
// the window although the run offers a match at offset 1. The neighbours are
// found by brute force over the data the suffix array was built on.
func gsapOutOfWindowNeighbours(cc PCfg, b blockRec) bool {
	if b.SaEnd < b.W+b.N || b.Off > b.W {
		return false
	}
	t := b.Fed[b.Off:b.SaEnd]
	blockEnd := b.W + b.N - b.Off
	clip := func(j, i int) int { return commonPrefix(t[j:blockEnd], t[i:blockEnd]) }
	// literal positions of the block
	var lits []int
	p := b.W
	for _, s := range b.Seqs {
		for k := 0; k < int(s.LitLen); k++ {
			lits = append(lits, p+k)
		}
		p += int(s.LitLen) + int(s.MatchLen)
	}
	for ; p < b.W+b.N; p++ {
		lits = append(lits, p)
	}
	checked := 0
	for _, abs := range lits {
		i := abs - b.Off
		if i < 1 || blockEnd-i < cc.MinMatchLen {
			continue
		}
		if checked++; checked > 6 {
			break
		}
		pred, succ := -1, -1
		for j := 0; j < i; j++ {
			if bytes.Compare(t[j:], t[i:]) < 0 {
				if pred < 0 || bytes.Compare(t[j:], t[pred:]) > 0 {
					pred = j
				}
			} else if succ < 0 || bytes.Compare(t[j:], t[succ:]) < 0 {
				succ = j
			}
		}
		f, m := -1, 0
		if pred >= 0 {
			f, m = pred, clip(pred, i)
		}
		if succ >= 0 {
			if m2 := clip(succ, i); f < 0 || m2 > m || (m2 == m && succ > f) {
				f, m = succ, m2
			}
		}
		if f >= 0 && m >= cc.MinMatchLen && i-f >= cc.WindowSize {
			return true
		}
	}
	return false
}

// genRunHistory: stream = prefix . c^R . suffix, delivered so that blocks of at
// least 32 bytes fall inside the run (at its start, middle and end, after a
// Shrink, after a refill). Flags 0.
func genRunHistory(t *rapid.T, x *parserExec) { genRunHistoryOpt(t, x, 0, 0) }

// noiseBlocks > 0: the prefix is noiseBlocks whole blocks of bytes that hardly
// repeat (more than a thousand positions without a match), everything is
// written at once, so the run begins exactly at a block start.
// longRun > 0: the run has that many bytes (tens of thousands).
func genRunHistoryOpt(t *rapid.T, x *parserExec, noiseBlocks, longRun int) {
	cc := x.cc
	var c byte
	switch weighted(t, "cKind", 3, 2, 3) {
	case 0:
		c = 0
	case 1:
		c = 0xff
	default:
		c = rapid.Byte().Draw(t, "c")
	}
	// prefix / suffix: any text. (For GSAP an older run of c that has left
	// the window while still buffered leads to the known finding D18, which
	// checkRunBlocks delimits; the prefix is not restricted.)
	mk := func(label string, n int) []byte {
		out := genText(t, label, maxInt(n, 1))
		if len(out) > n {
			out = out[:n]
		}
		return out
	}
	prefix := mk("prefix", genSize(t, "prefixLen", 80, 0, 1, 7, 8))
	twoRunsOf := 4
	if cc.Kind == "GSAP" {
		twoRunsOf = 2
	}
	if rapid.IntRange(0, twoRunsOf-1).Draw(t, "twoRuns") == 0 {
		// an earlier, shorter run of c, ended by a byte below or above c
		k := 1 + genSize(t, "run0Len", 150, 1, 2, 31, 32, 63, 64, 65)
		for i := 0; i < k; i++ {
			prefix = append(prefix, c)
		}
		sep := rapid.SampledFrom([]byte{c - 1, c + 1, 0, 1, 0xff}).Draw(t, "sep")
		if sep == c {
			sep = c ^ 0x80
		}
		prefix = append(prefix, sep)
	}
	if noiseBlocks > 0 {
		prefix = make([]byte, noiseBlocks*cc.BlockSize)
		z := rapid.Uint64().Draw(t, "noiseSeed")
		for i := range prefix {
			z += 0x9e3779b97f4a7c15
			y := (z ^ (z >> 30)) * 0xbf58476d1ce4e5b9
			y = (y ^ (y >> 27)) * 0x94d049bb133111eb
			prefix[i] = byte((y ^ (y >> 31)) >> 33)
			if prefix[i] == c {
				prefix[i] ^= 0x55
			}
		}
	}
	suffix := mk("suffix", genSize(t, "suffixLen", 40, 0, 1))
	r := 32 + genSize(t, "runLen", 600, 0, 1, 32, 33, 64)
	if longRun > 0 {
		r = longRun
	}
	stream := append([]byte{}, prefix...)
	for i := 0; i < r; i++ {
		stream = append(stream, c)
	}
	stream = append(stream, suffix...)
	pos := 0
	for steps := 0; pos < len(stream) && steps < 200 && !x.dead; steps++ {
		room := cc.BufferSize - x.buffered()
		n := len(stream) - pos
		if noiseBlocks == 0 && rapid.IntRange(0, 3).Draw(t, "partial") == 0 {
			n = 1 + rapid.IntRange(0, n-1).Draw(t, "chunk")
		}
		if n > room {
			n = maxInt(room, 0)
		}
		if n > 0 {
			x.step(POp{Op: "write", Data: stream[pos : pos+n]})
			pos += n
		}
		// parse some or all of it
		k := x.unparsed() + 1
		if noiseBlocks == 0 && rapid.IntRange(0, 2).Draw(t, "parseSome") == 0 {
			k = 1 + rapid.IntRange(0, 3).Draw(t, "nparse")
		}
		for ; k > 0 && x.unparsed() > 0 && !x.dead; k-- {
			x.step(POp{Op: "parse"})
		}
		if x.buffered() == cc.BufferSize && x.unparsed() == 0 || rapid.IntRange(0, 2).Draw(t, "shrink") == 0 {
			x.step(POp{Op: "shrink"})
			if cc.BufferSize-x.buffered() == 0 && x.unparsed() == 0 {
				break // ShrinkSize keeps the buffer full: cannot continue
			}
		}
	}
	for k := x.unparsed() + 1; k > 0 && x.unparsed() > 0 && !x.dead; k-- {
		x.step(POp{Op: "parse"})
	}
}

func TestC19Runs(t *testing.T) {
	st := statsFor("C19")
	for _, kind := range kindsFromEnv(Kinds) {
		kind := kind
		t.Run(kind, func(t *testing.T) {
			rapid.Check(t, func(t *rapid.T) {
				decorrelate(t, kind)
				cfg := genPCfg(t, kind, 400)
				// at least one block of >= 32 bytes must be possible
				if cfg.BlockSize != 0 && cfg.BlockSize < 32 {
					cfg.BlockSize = 32 + cfg.BlockSize
				}
				if cfg.BufferSize != 0 && cfg.BufferSize < 40 {
					cfg.BufferSize += 40
					if cfg.ShrinkSize >= cfg.BufferSize {
						cfg.ShrinkSize = 0
					}
				}
				// every accepted config incl. WindowSize 1 (hash) / 2 (GSAP)
				if rapid.IntRange(0, 3).Draw(t, "minWindow") == 0 {
					switch kind {
					case "GSAP":
						cfg.WindowSize = 2
						cfg.MinMatchLen = 2
					default:
						cfg.WindowSize = 1
					}
					if cfg.BufferSize == 0 {
						// the default BufferSize is WindowSize
						cfg.BufferSize = 200
						if cfg.ShrinkSize >= 200 {
							cfg.ShrinkSize = 0
						}
					}
				}
				if (kind == "GSAP" || kind == "OSAP") && cfg.MinMatchLen > 8 {
					cfg.MinMatchLen = 8
				}
				if kind == "GSAP" && rapid.IntRange(0, 2).Draw(t, "smallWindow") == 0 {
					// history older than the window stays buffered
					cfg.WindowSize = maxInt(rapid.IntRange(2, 80).Draw(t, "gsapWindow"), cfg.MinMatchLen)
					if cfg.BufferSize != 0 && cfg.BufferSize < 200 {
						cfg.BufferSize = 200 + cfg.BufferSize
					}
					if cfg.BufferSize == 0 {
						cfg.BufferSize = 400
					}
					if cfg.ShrinkSize >= cfg.BufferSize {
						cfg.ShrinkSize = 0
					}
				}
				noiseBlocks := 0
				if kind != "GSAP" && kind != "OSAP" && rapid.IntRange(0, 5).Draw(t, "noisePrefix") == 0 {
					// a long stretch without a match in front of the run,
					// ending exactly at a block end
					cfg.BlockSize = rapid.SampledFrom([]int{64, 100, 256, 512, 1024, 2048}).Draw(t, "noiseBlockSize")
					cfg.BufferSize = 16384
					cfg.ShrinkSize = rapid.SampledFrom([]int{0, 1024}).Draw(t, "noiseShrink")
					if cfg.WindowSize > 16384 {
						cfg.WindowSize = 0
					}
					noiseBlocks = (1100+cfg.BlockSize-1)/cfg.BlockSize + rapid.IntRange(0, 2).Draw(t, "noiseMore")
				}
				longRun := 0
				if noiseBlocks == 0 && rapid.IntRange(0, 11).Draw(t, "longRun") == 0 {
					// a run of tens of thousands of bytes in a buffer that
					// holds it, small blocks: the blocks at its very end
					longRun = 16384 + rapid.IntRange(200, 3000).Draw(t, "longRunOver")
					cfg.BufferSize = 24000
					cfg.WindowSize = rapid.SampledFrom([]int{0, 24000, 20000}).Draw(t, "longRunWindow")
					if cfg.WindowSize == 0 {
						cfg.WindowSize = 24000
					}
					cfg.ShrinkSize = 0
					cfg.BlockSize = rapid.SampledFrom([]int{64, 100, 128, 136, 272, 33}).Draw(t, "longRunBlock")
				}
				x, err := newParserExec(cfg)
				if err != nil {
					st.class("config-rejected:" + kind)
					return
				}
				x.keepBlocks = true
				beginCase("C19", "runs-"+kind, func() any { return x.Case() })
				defer endCase() // also when rapid abandons the case half-way (fuzzing: input used up)
				genRunHistoryOpt(t, x, noiseBlocks, longRun)
				if !x.dead {
					checkRunBlocks(x)
				}
				endCase()
				if msg, bad := x.first("C19"); bad {
					recordFailure("C19", "runs-"+kind, x.Case(), msg)
					t.Fatalf("C19 violated (runs %s): %s", kind, msg)
				}
				if x.dead {
					st.abort("runs-" + kind)
					return
				}
				cl := []string{"runs", "kind:" + kind}
				if x.runBlocks > 0 {
					cl = append(cl, "runs:block>=32-inside-run")
				}
				if x.runBlocksAfterShrink > 0 {
					cl = append(cl, "runs:such-a-block-after-shrink")
				}
				if x.cc.WindowSize <= 2 {
					cl = append(cl, "runs:minimal-window")
				}
				for i := 0; i < x.excludedD18; i++ {
					st.exclude("D18-gsap-neighbours-outside-window")
				}
				for i := 0; i < x.excludedD22; i++ {
					st.exclude("D22-tail-behind-match-from-older-run")
				}
				c := x.Case()
				st.eval(cl, x.runBlocksAfterShrink > 0, hashJSON(c), "runs-"+kind, func() any { return c })
			})
		})
	}
}

// TestC19Triple: one string three times (A ... B ... C, see genTripleText) in a
// buffer that holds all of it, a window drawn so that A, B are inside or
// outside of it as seen from C, tables large enough for the entries of B to
// survive the filler, C at the end of the data or of a block. Written in one
// or two pieces and parsed to the end; the oracles are those of TestC19 (and of
// C02 for the window).
func TestC19Triple(t *testing.T) { tripleProp(t, "C19") }

// TestC02Triple: the same histories judged by C02's oracle (offsets within the
// window although an earlier copy lies outside of it).
func TestC02Triple(t *testing.T) { tripleProp(t, "C02") }

func tripleProp(t *testing.T, prop string) {
	st := statsFor(prop)
	for _, kind := range kindsFromEnv([]string{"HP", "BHP", "DHP", "BDHP", "BUP", "GSAP"}) {
		kind := kind
		t.Run(kind, func(t *testing.T) {
			rapid.Check(t, func(t *rapid.T) {
				decorrelate(t, kind)
				cfg := genPCfg(t, kind, 400)
				cfg.BufferSize = rapid.IntRange(300, 3000).Draw(t, "tBuf")
				cfg.WindowSize = rapid.IntRange(16, cfg.BufferSize).Draw(t, "tWin")
				if rapid.Bool().Draw(t, "tWinSmall") {
					cfg.WindowSize = rapid.IntRange(16, maxInt(cfg.BufferSize/4, 17)).Draw(t, "tWinS")
				}
				cfg.ShrinkSize = 0
				if rapid.IntRange(0, 2).Draw(t, "tBits") > 0 {
					// entries survive a few hundred bytes of filler
					if cfg.HashBits != 0 || kind == "HP" || kind == "BHP" || kind == "BUP" {
						cfg.HashBits = minInt(8*maxInt(cfg.InputLen, 2), rapid.IntRange(12, 16).Draw(t, "tHashBits"))
						if kind == "BUP" && cfg.HashBits > 12 {
							cfg.HashBits = 12
						}
					}
					if kind == "DHP" || kind == "BDHP" {
						cfg.HashBits1 = minInt(8*maxInt(cfg.InputLen1, 2), rapid.IntRange(12, 16).Draw(t, "tHashBits1"))
						cfg.HashBits2 = minInt(8*maxInt(cfg.InputLen2, 3), rapid.IntRange(12, 16).Draw(t, "tHashBits2"))
					}
				}
				cc := cfg.Completed()
				text := genTripleText(t, cc, 3000)
				switch rapid.IntRange(0, 3).Draw(t, "tBlk") {
				case 0:
					cfg.BlockSize = len(text) // C ends the only block
				case 1:
					cfg.BlockSize = 0
				case 2:
					cfg.BlockSize = maxInt(len(text)/rapid.IntRange(2, 5).Draw(t, "tBlkDiv"), 1)
				}
				x, err := newParserExec(cfg)
				if err != nil {
					st.class("config-rejected:" + kind)
					return
				}
				beginCase(prop, "triple-"+kind, func() any { return x.Case() })
				defer endCase()
				cut := len(text)
				if rapid.IntRange(0, 3).Draw(t, "tTwoWrites") == 0 {
					cut = rapid.IntRange(0, len(text)).Draw(t, "tCut")
				}
				x.step(POp{Op: "write", Data: text[:cut]})
				if cut < len(text) {
					for k := rapid.IntRange(0, 3).Draw(t, "tParsesBetween"); k > 0 && x.unparsed() > 0 && !x.dead; k-- {
						x.step(POp{Op: "parse"})
					}
					x.step(POp{Op: "write", Data: text[cut:]})
				}
				for k := x.unparsed() + 2; k > 0 && x.unparsed() > 0 && !x.dead; k-- {
					x.step(POp{Op: "parse"})
				}
				endCase()
				if msg, bad := x.first(prop); bad {
					recordFailure(prop, "triple-"+kind, x.Case(), msg)
					t.Fatalf("%s violated (triple %s): %s", prop, kind, msg)
				}
				if x.dead {
					st.abort("triple-" + kind)
					return
				}
				cl := []string{"triple", "kind:" + kind}
				if x.backwardChecked > 0 {
					cl = append(cl, "triple:literal-before-match-with-buffered-source")
				}
				if x.streamBeyondWindow {
					cl = append(cl, "triple:match-beyond-one-window")
				}
				c := x.Case()
				st.eval(cl, x.nMatches > 0 && x.streamBeyondWindow, hashJSON(c), "triple-"+kind, func() any { return c })
			})
		})
	}
}

func init() {
	replayers["C19"] = func(raw json.RawMessage) (string, bool, error) {
		var c ParserCase
		if err := json.Unmarshal(raw, &c); err != nil {
			return "", false, err
		}
		x, err := replayParserCase(c, func(x *parserExec) { x.keepBlocks = true })
		if err != nil {
			return "", false, errConfigRejected
		}
		if !x.dead {
			checkRunBlocks(x)
		}
		msg, bad := x.first("C19")
		return msg, bad, nil
	}
}
