package harness

import (
	"encoding/json"
	"fmt"
	"testing"

	"github.com/ulikunitz/lz/suffix"
	"pgregory.net/rapid"
)

type textCase struct {
	Text   Bytes  `json:"text"`
	Family string `json:"family,omitempty"`
}

// checkSuffix decides C09 for one text.
func checkSuffix(text []byte) (msg string, bad bool) {
	defer func() {
		if r := recover(); r != nil {
			msg, bad = fmt.Sprintf("panic: %v", r), true
		}
	}()
	n := len(text)
	// The text is handed over as the front part of a larger buffer in three
	// of four variants: behind its length stand the text once more (a stream
	// that was read ahead, a periodic buffer), its last byte repeated, or
	// zeros. Nothing behind len(t) belongs to the text.
	variant := func(k int) (t, whole []byte) {
		switch k % 4 {
		case 1:
			whole = append(append(cloneBytes(text), text...), 0, 0, 0, 0, 0, 0, 0, 0)
		case 2:
			whole = cloneBytes(text)
			for i := 0; i < 16 && n > 0; i++ {
				whole = append(whole, text[n-1])
			}
		case 3:
			whole = append(cloneBytes(text), make([]byte, 24)...)
		default:
			whole = append(make([]byte, 0, n), text...)
		}
		return whole[:n:len(whole)], whole
	}
	t, whole := variant(n)
	tail := cloneBytes(whole[n:])
	// The arrays live in one allocation with guard words between them, the
	// way a caller with an arena lays them out; their capacity reaches into
	// what follows them, nothing behind their length belongs to the package.
	const gw = 2
	arena := make([]int32, 3*n+4*gw)
	for i := range arena {
		arena[i] = int32(-900000 - i)
	}
	guardsOK := func() bool {
		for _, base := range []int{0, gw + n, 2*gw + 2*n, 3*gw + 3*n} {
			for i := 0; i < gw; i++ {
				if arena[base+i] != int32(-900000-(base+i)) {
					return false
				}
			}
		}
		return true
	}
	sa := arena[gw : gw+n]
	for i := range sa {
		// previous contents: garbage incl. negatives and duplicates
		sa[i] = int32((i%7)*13 - 40)
	}
	suffix.Sort(t, sa)
	if !guardsOK() {
		return "Sort wrote outside of the suffix array it was given", true
	}
	if !bytesEqual(t, text) || !bytesEqual(whole[n:], tail) {
		return "Sort modified the text (or the bytes behind it in the caller's buffer)", true
	}
	if err := checkSuffixArray(text, sa); err != nil {
		return "Sort: " + err.Error(), true
	}
	if n <= 64 {
		ref := naiveSuffixArray(text)
		for i := range ref {
			if ref[i] != sa[i] {
				return fmt.Sprintf("Sort: sa[%d]=%d, sorting the suffixes by comparison gives %d", i, sa[i], ref[i]), true
			}
		}
	}
	var want []int32
	if n <= 2000 {
		want = naiveLCP(text, sa)
	} else {
		want = kasaiLCP(text, sa)
	}
	inv := arena[2*gw+n : 2*gw+2*n]
	for i := range inv {
		inv[i] = -7
	}
	suffix.InvertSA(sa, inv)
	if !guardsOK() {
		return "InvertSA wrote outside of the array it was given", true
	}
	for i, p := range sa {
		if inv[p] != int32(i) {
			return fmt.Sprintf("InvertSA: sainv[sa[%d]=%d] = %d", i, p, inv[p]), true
		}
	}
	// Calls that LCP refuses (a table of the wrong length: it panics, the
	// caller recovers) must not leave anything behind that changes the
	// answers to the calls that follow.
	if n > 0 {
		for _, wrong := range []int{n + 1, n - 1} {
			for _, withSA := range []bool{true, false} {
				func() {
					defer func() { _ = recover() }()
					var saArg []int32
					if withSA {
						saArg = append([]int32(nil), sa...)
					}
					suffix.LCP(t, saArg, nil, make([]int32, wrong))
				}()
			}
		}
	}
	// Not supplied is nil - or, from a caller that keeps its slices, a slice
	// of another length (what is left of an earlier, shorter or longer text):
	// LCP then computes the array itself. Both such slices may well be cut
	// from one buffer of the caller.
	spare := make([]int32, 2*n+3)
	for combo := 0; combo < 7; combo++ {
		var saArg, invArg []int32
		if combo&1 != 0 {
			saArg = append([]int32(nil), sa...)
		}
		if combo&2 != 0 {
			invArg = append([]int32(nil), inv...)
		}
		switch combo {
		case 4:
			saArg, invArg = spare[:0], spare[:0]
		case 5:
			saArg, invArg = spare[:n+1], spare[1:n+2]
		case 6:
			saArg, invArg = append([]int32(nil), sa...), spare[:n/2]
		}
		if combo >= 4 && n == 0 {
			continue
		}
		t, whole := variant(n + combo + 1)
		tail := cloneBytes(whole[n:])
		supplied := len(saArg) == n
		suppliedInv := supplied && len(invArg) == n
		lcp := arena[3*gw+2*n : 3*gw+3*n]
		for i := range lcp {
			lcp[i] = int32(1000 + i)
		}
		suffix.LCP(t, saArg, invArg, lcp)
		if !bytesEqual(t, text) || !bytesEqual(whole[n:], tail) {
			return "LCP modified the text (or the bytes behind it in the caller's buffer)", true
		}
		if !guardsOK() {
			return "LCP wrote outside of the table it was given", true
		}
		for i := range saArg {
			if supplied && saArg[i] != sa[i] {
				return "LCP modified the suffix array it was given", true
			}
		}
		for i := range invArg {
			if suppliedInv && invArg[i] != inv[i] {
				return "LCP modified the inverse suffix array it was given", true
			}
		}
		for i := range lcp {
			if lcp[i] != want[i] {
				return fmt.Sprintf("LCP (sa: %d entries for %d bytes, sainv: %d entries, operand combination %d): lcp[%d]=%d; the suffixes %d and %d share %d bytes",
					len(saArg), n, len(invArg), combo, i, lcp[i], saAt(sa, i-1), sa[i], want[i]), true
			}
		}
	}
	return "", false
}

func saAt(sa []int32, i int) int32 {
	if i < 0 {
		return -1
	}
	return sa[i]
}

func TestC09(t *testing.T) {
	st := statsFor("C09")
	maxLen := 4000
	rapid.Check(t, func(t *rapid.T) {
		text, fam := genSuffixText(t, maxLen)
		c := textCase{Text: text, Family: fam}
		beginCase("C09", "", func() any { return c })
		defer endCase() // also when rapid abandons the case half-way (fuzzing: input used up)
		msg, bad := checkSuffix(text)
		endCase()
		if bad {
			recordFailure("C09", "", c, msg)
			t.Fatalf("C09 violated: %s", msg)
		}
		cl := []string{"family:" + fam}
		switch {
		case len(text) <= 3:
			cl = append(cl, "len<=3")
		case len(text) <= 64:
			cl = append(cl, "len<=64")
		case len(text) <= 600:
			cl = append(cl, "len<=600")
		default:
			cl = append(cl, "len>600")
		}
		st.eval(cl, sharedBStarSubstrings(text), hashBytes(text), fam, func() any { return c })
	})
}

// enumStrings calls f for every string over the first k letters of length
// 0..maxLen.
func enumStrings(k, maxLen int, f func(s []byte)) {
	for n := 0; n <= maxLen; n++ {
		s := make([]byte, n)
		for {
			f(s)
			i := n - 1
			for i >= 0 {
				s[i]++
				if int(s[i]) < k {
					break
				}
				s[i] = 0
				i--
			}
			if i < 0 {
				break
			}
		}
	}
}

func envInt(name string, def int) int {
	var v int
	if _, err := fmt.Sscanf(getenv(name), "%d", &v); err == nil {
		return v
	}
	return def
}

// TestC09Enum: small-scope exhaustive enumeration, all strings over {a,b} up
// to length $VERIF_C09_AB (default 11) and over {a,b,c} up to $VERIF_C09_ABC
// (default 7).
func TestC09Enum(t *testing.T) {
	st := statsFor("C09")
	n := 0
	run := func(k, maxLen int) {
		enumStrings(k, maxLen, func(s []byte) {
			n++
			text := make([]byte, len(s))
			for i, c := range s {
				text[i] = 'a' + c
			}
			if msg, bad := checkSuffix(text); bad {
				c := textCase{Text: text, Family: "enumerated"}
				recordFailure("C09", "enum", c, msg)
				t.Errorf("C09 violated on %q: %s", text, msg)
			}
			st.eval([]string{"enumerated"}, sharedBStarSubstrings(text), hashBytes(text), "enum", func() any {
				return textCase{Text: cloneBytes(text), Family: "enumerated"}
			})
		})
	}
	ab, abc := envInt("VERIF_C09_AB", 11), envInt("VERIF_C09_ABC", 7)
	run(2, ab)
	run(3, abc)
	st.note("enumerated all strings over {a,b} up to length %d and over {a,b,c} up to length %d", ab, abc)
	fmt.Printf("ENUM-DONE %d\n", n)
}

// TestC09Large: the families at 50 kB - 1 MB (thorough tier only).
func TestC09Large(t *testing.T) {
	st := statsFor("C09")
	sizes := []int{50_000, 131_072, 300_000, 1_000_000}
	n := 0
	for _, sz := range sizes {
		gens := map[string]func(int) []byte{
			"fibonacci":       fibWord,
			"thue-morse":      thueMorse,
			"period-doubling": periodDoubling,
			"run":             func(n int) []byte { return make([]byte, n) },
			"de-bruijn": func(n int) []byte {
				s := deBruijn(2, 16)
				var out []byte
				for len(out) < n {
					out = append(out, s...)
				}
				return out[:n]
			},
			"a^k b": func(n int) []byte {
				out := make([]byte, n)
				for i := range out {
					if i%1000 == 999 {
						out[i] = 1
					}
				}
				return out
			},
		}
		for name, g := range gens {
			text := g(sz)
			n++
			c := textCase{Family: fmt.Sprintf("large %s %d", name, sz)}
			beginCase("C09", "large", func() any { return c })
			defer endCase() // also when rapid abandons the case half-way (fuzzing: input used up)
			msg, bad := checkSuffix(text)
			endCase()
			if bad {
				recordFailure("C09", "large", textCase{Text: text, Family: c.Family}, msg)
				t.Errorf("C09 violated on %s: %s", c.Family, msg)
			}
			st.eval([]string{"large", "family:" + name}, sharedBStarSubstrings(text), hashBytes(text), "large", func() any { return c })
		}
	}
	fmt.Printf("ENUM-DONE %d\n", n)
}

func init() {
	replayers["C09"] = func(raw json.RawMessage) (string, bool, error) {
		var c textCase
		if err := json.Unmarshal(raw, &c); err != nil {
			return "", false, err
		}
		msg, bad := checkSuffix(c.Text)
		return msg, bad, nil
	}
}
