package harness

import (
	"encoding/json"
	"testing"

	"pgregory.net/rapid"
)

// wrapProp is the common body of the properties decided on WrappedParser
// histories.
type wrapProp struct {
	prop         string
	stats        string // property whose statistics the run feeds
	maxBuf       int
	faults       bool
	eqShrink     bool
	nilCalls     bool
	differential bool
}

func (wp wrapProp) run(t *testing.T, kinds []string) {
	st := statsFor(wp.stats)
	for _, kind := range kindsFromEnv(kinds) {
		kind := kind
		t.Run(kind, func(t *testing.T) {
			rapid.Check(t, func(t *rapid.T) {
				decorrelate(t, kind)
				c := genWrapCase(t, kind, wp.maxBuf, wp.faults, wp.eqShrink, wp.nilCalls)
				beginCase(wp.prop, "wrap-"+kind, func() any { return c })
				defer endCase() // also when rapid abandons the case half-way (fuzzing: input used up)
				msg, bad, x, err := checkWrap(wp.prop, c, wp.differential)
				endCase()
				if err != nil {
					st.class("config-rejected:" + kind)
					return
				}
				if bad {
					recordFailure(wp.prop, "wrap-"+kind, c, msg)
					t.Fatalf("%s violated (wrap %s): %s", wp.prop, kind, msg)
				}
				if x.dead {
					why := "wrap-" + kind
					if len(x.findings) > 0 {
						why += ":" + x.findings[0].prop
					}
					st.abort(why)
					return
				}
				cl := []string{"wrap", "kind:" + kind}
				whole := len(c.R.Events) == 0
				if x.refills {
					cl = append(cl, "wrap:input>BufferSize")
				}
				if !whole {
					cl = append(cl, "wrap:chunked-reader")
				}
				if x.faults > 0 {
					cl = append(cl, "wrap:fault-surfaced")
				}
				if x.faultsWithData > 0 {
					cl = append(cl, "wrap:fault-with-data")
				}
				if x.nMatches > 0 {
					cl = append(cl, "wrap:has-match")
				}
				nt := (x.refills && !whole) || x.faultsWithData > 0
				st.eval(cl, nt, hashJSON(c), "wrap-"+kind, func() any { return c })
			})
		})
	}
}

// ---------------------------------------------------------------- C08

var propC08 = wrapProp{prop: "C08", stats: "C08", maxBuf: 120, faults: true, differential: true}

func TestC08(t *testing.T) { propC08.run(t, Kinds) }

// C01 through Wrap (fault-free readers; C08 owns faults).
var propC01Wrap = wrapProp{prop: "C01", stats: "C01", maxBuf: 200}

func TestC01Wrap(t *testing.T) { propC01Wrap.run(t, Kinds) }

func init() {
	replayers["C08"] = wrapReplayer("C08", true)
	// C01 has two case formats: parser histories and wrapped histories.
	hist := propC01.replayer()
	wrapped := wrapReplayer("C01", false)
	replayers["C01"] = func(raw json.RawMessage) (string, bool, error) {
		if isWrapCase(raw) {
			return wrapped(raw)
		}
		return hist(raw)
	}
}
