package harness

import (
	"encoding/json"
	"fmt"
	"testing"

	"github.com/ulikunitz/lz"
	"pgregory.net/rapid"
)

// PipeCase is a parser history whose blocks are fed to a Decoder with the same
// window size.
type PipeCase struct {
	Parser ParserCase `json:"parser"`
	// DecBuf is the decoder's BufferSize (0 = default 2*WindowSize).
	DecBuf int `json:"decBuf"`
}

type pipeResult struct {
	msg        string
	bad        bool
	excluded   int
	blocks     int
	bigItems   int // items larger than the decoder's free space at that moment (approximated by > BufferSize-WindowSize-...)
	retryLoops int
	matches    int
	blockGtWin bool
}

// checkPipe feeds the blocks of an executed parser history to a Decoder.
func checkPipe(px *parserExec, decBuf int) (r pipeResult) {
	w := px.cc.WindowSize
	c := DecCase{Vehicle: "dec", Cfg: DCfg{WindowSize: w, BufferSize: decBuf}}
	dx, err := newDecExec(c)
	if err != nil {
		// The parser accepted WindowSize w; C07 pairs it with a Decoder of
		// the same window and BufferSize 0 (the default) or any value > w.
		r.msg = fmt.Sprintf("NewDecoder(WindowSize %d, BufferSize %d): %v", w, decBuf, err)
		r.bad = decBuf == 0 || (decBuf > w && int64(decBuf) <= 1<<32-1)
		return r
	}
	free := dx.cc.BufferSize - dx.cc.WindowSize
	r.blockGtWin = px.cc.BlockSize > w
	pos := 0
	for i, b := range px.blocks {
		if b.W != pos {
			// a Reset or Parse(nil) broke the stream: not generated for C07
			r.msg = "stream not contiguous"
			return r
		}
		r.blocks++
		r.matches += len(b.Seqs)
		lp := 0
		for _, s := range b.Seqs {
			if int(s.LitLen)+int(s.MatchLen) > free {
				r.bigItems++
			}
			lp += int(s.LitLen)
		}
		if len(b.Lits)-lp > free {
			r.bigItems++
		}
		before := len(dx.all)
		ex := dx.excludedD14
		dx.step(DOp{Op: "wblock", Seqs: b.Seqs, Lits: b.Lits})
		if m, bad := dx.first("C07"); bad {
			r.msg, r.bad = fmt.Sprintf("block %d (stream position %d, n=%d): %s", i, b.W, b.N, m), true
			return r
		}
		if m, bad := dx.first("C06"); bad {
			r.msg, r.bad = fmt.Sprintf("block %d: %s", i, m), true
			return r
		}
		if dx.dead {
			r.msg = "decoder model stopped"
			return r
		}
		if dx.excludedD14 > ex {
			// Known finding D14: resynchronise by writing the rest of
			// the block as plain bytes so that the search continues.
			r.excluded++
			done := len(dx.all) - before
			dx.step(DOp{Op: "write", Data: b.Fed[b.W+done : b.W+b.N]})
			if m, bad := dx.first("C07"); bad {
				r.msg, r.bad = "resync write: "+m, true
				return r
			}
		}
		if len(dx.all)-before != b.N {
			r.msg, r.bad = fmt.Sprintf("block %d: decoder consumed %d bytes, the block covers %d", i, len(dx.all)-before, b.N), true
			return r
		}
		pos += b.N
	}
	dx.finish()
	r.retryLoops = dx.retryLoopRan
	if m, bad := dx.first("C07"); bad {
		r.msg, r.bad = m, true
		return r
	}
	if !dx.dead && !bytesEqual(dx.wr.got, px.fed[:pos]) {
		r.msg, r.bad = fmt.Sprintf("after Flush the writer holds %d bytes that differ from the %d bytes parsed", len(dx.wr.got), pos), true
	}
	return r
}

func pipeOpts() histOpts {
	o := defaultHistOpts()
	o.resetNil, o.resetDat = 0, 0
	o.maxText = 900
	return o
}

func TestC07Parsers(t *testing.T) {
	st := statsFor("C07")
	for _, kind := range kindsFromEnv(Kinds) {
		kind := kind
		t.Run(kind, func(t *testing.T) {
			rapid.Check(t, func(t *rapid.T) {
				decorrelate(t, kind)
				cfg := genPCfg(t, kind, 300)
				// small windows, block sizes from 1 to beyond 4*W
				opts := pipeOpts()
				if rapid.IntRange(0, 9).Draw(t, "hugeWin") < 2 {
					hugeWindowTweak(t, &cfg)
					opts.ntl, opts.ntlPair, opts.uniformPct, opts.tinyPct = 50, 6, 40, 0
				} else if rapid.IntRange(0, 3).Draw(t, "smallWin") > 0 {
					cfg.WindowSize = rapid.IntRange(1, 24).Draw(t, "w")
					if kind == "GSAP" && cfg.WindowSize < maxInt(cfg.MinMatchLen, 3) {
						cfg.WindowSize = maxInt(cfg.MinMatchLen, 3)
					}
					cfg.BlockSize = 1 + genSize(t, "blk", 8*cfg.WindowSize, cfg.WindowSize-1, cfg.WindowSize, 4*cfg.WindowSize)
					if cfg.BufferSize == 0 {
						cfg.BufferSize = 64
					}
					if cfg.ShrinkSize >= cfg.BufferSize {
						cfg.ShrinkSize = 0
					}
				}
				px, err := newParserExec(cfg)
				if err != nil {
					st.class("config-rejected:" + kind)
					return
				}
				px.keepBlocks = true
				w := px.cc.WindowSize
				decBuf := 0
				if w < 1<<20 && rapid.Bool().Draw(t, "decBufSet") {
					decBuf = w + 1 + genSize(t, "decBuf", 3*w, 0, 1, w-1, w)
				} else if w >= 1<<20 && rapid.Bool().Draw(t, "decBufSetBig") {
					// nothing of that size is allocated
					decBuf = minInt(w+rapid.SampledFrom([]int{1, 7, 8, 1 << 20, w}).Draw(t, "decBufBig"), 1<<32-1)
				}
				pc := func() any { return PipeCase{Parser: px.Case(), DecBuf: decBuf} }
				beginCase("C07", "pipe-"+kind, pc)
				defer endCase() // also when rapid abandons the case half-way (fuzzing: input used up)
				genParserHistory(t, px, opts)
				var r pipeResult
				if !px.dead {
					r = checkPipe(px, decBuf)
				}
				endCase()
				if r.bad {
					recordFailure("C07", "pipe-"+kind, pc(), r.msg)
					t.Fatalf("C07 violated (pipe %s): %s", kind, r.msg)
				}
				for i := 0; i < r.excluded; i++ {
					st.exclude("D14:item>BufferSize-WindowSize")
				}
				if px.dead || r.msg != "" {
					st.abort("pipe-" + kind)
					return
				}
				cl := []string{"pipe", "kind:" + kind}
				if r.bigItems > 0 {
					cl = append(cl, "pipe:item>BufferSize-WindowSize")
				}
				if r.retryLoops > 0 {
					cl = append(cl, "pipe:decoder-had-to-flush")
				}
				if r.blockGtWin {
					cl = append(cl, "pipe:BlockSize>WindowSize")
				}
				if r.matches > 0 {
					cl = append(cl, "pipe:has-match")
				}
				nt := r.matches > 0 && (r.retryLoops > 0 || r.blockGtWin)
				c := pc()
				st.eval(cl, nt, hashJSON(c), "pipe-"+kind, func() any { return c })
			})
		})
	}
}

func replayPipe(raw json.RawMessage) (string, bool, error) {
	var c PipeCase
	if err := json.Unmarshal(raw, &c); err != nil {
		return "", false, err
	}
	px, err := replayParserCase(c.Parser, func(x *parserExec) { x.keepBlocks = true })
	if err != nil {
		return "", false, fmt.Errorf("%w: %v", errConfigRejected, err)
	}
	if px.dead {
		return "", false, nil
	}
	r := checkPipe(px, c.DecBuf)
	return r.msg, r.bad, nil
}

var _ = lz.Seq{}

func init() {
	synthetic := propC07.replayer()
	replayers["C07"] = func(raw json.RawMessage) (string, bool, error) {
		var probe struct {
			Parser *json.RawMessage `json:"parser"`
		}
		_ = json.Unmarshal(raw, &probe)
		if probe.Parser != nil {
			return replayPipe(raw)
		}
		return synthetic(raw)
	}
}
