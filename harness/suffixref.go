package harness

import (
	"bytes"
	"fmt"
	"sort"
)

// checkSuffixArray decides whether sa is the suffix array of t with the
// linear-time characterisation of Burkhardt and Kärkkäinen: sa is a
// permutation of 0..n-1, the first bytes are ordered, and where the first
// bytes are equal the ranks of the tails are ordered (the empty tail is the
// smallest). These three conditions are necessary and sufficient.
func checkSuffixArray(t []byte, sa []int32) error {
	n := len(t)
	if len(sa) != n {
		return fmt.Errorf("len(sa)=%d, len(t)=%d", len(sa), n)
	}
	rank := make([]int32, n+1)
	for i := range rank {
		rank[i] = -2
	}
	for i, p := range sa {
		if p < 0 || int(p) >= n {
			return fmt.Errorf("sa[%d]=%d out of range [0,%d)", i, p, n)
		}
		if rank[p] != -2 {
			return fmt.Errorf("sa is not a permutation: %d occurs at %d and %d", p, rank[p], i)
		}
		rank[p] = int32(i)
	}
	rank[n] = -1
	for i := 1; i < n; i++ {
		a, b := sa[i-1], sa[i]
		switch {
		case t[a] < t[b]:
		case t[a] > t[b]:
			return fmt.Errorf("sa[%d]=%d and sa[%d]=%d: first bytes %#x > %#x", i-1, a, i, b, t[a], t[b])
		default:
			if !(rank[a+1] < rank[b+1]) {
				return fmt.Errorf("sa[%d]=%d and sa[%d]=%d: equal first byte %#x but the tails are ranked %d >= %d",
					i-1, a, i, b, t[a], rank[a+1], rank[b+1])
			}
		}
	}
	return nil
}

// naiveSuffixArray sorts the suffixes by comparison.
func naiveSuffixArray(t []byte) []int32 {
	sa := make([]int32, len(t))
	for i := range sa {
		sa[i] = int32(i)
	}
	sort.Slice(sa, func(i, j int) bool { return bytes.Compare(t[sa[i]:], t[sa[j]:]) < 0 })
	return sa
}

// naiveLCP computes the LCP table by direct comparison.
func naiveLCP(t []byte, sa []int32) []int32 {
	lcp := make([]int32, len(sa))
	for i := 1; i < len(sa); i++ {
		lcp[i] = int32(commonPrefix(t[sa[i-1]:], t[sa[i]:]))
	}
	return lcp
}

// kasaiLCP computes the LCP table in linear time from a verified suffix array.
func kasaiLCP(t []byte, sa []int32) []int32 {
	n := len(t)
	rank := make([]int32, n)
	for i, p := range sa {
		rank[p] = int32(i)
	}
	lcp := make([]int32, n)
	h := 0
	for i := 0; i < n; i++ {
		r := rank[i]
		if r == 0 {
			h = 0
			continue
		}
		j := int(sa[r-1])
		for i+h < n && j+h < n && t[i+h] == t[j+h] {
			h++
		}
		lcp[r] = int32(h)
		if h > 0 {
			h--
		}
	}
	return lcp
}

// sharedBStarSubstrings reports whether two B* suffixes of t have equal
// B*-substrings, i.e. whether the rank sort of the suffix sorter has real work
// to do (non-triviality rule of C09). Types: suffix n-1 is of type A; suffix i
// is of type B if t[i] < t[i+1], or t[i] == t[i+1] and suffix i+1 is of type B;
// B* = type B followed by type A.
func sharedBStarSubstrings(t []byte) bool {
	n := len(t)
	if n < 4 {
		return false
	}
	isB := make([]bool, n)
	for i := n - 2; i >= 0; i-- {
		isB[i] = t[i] < t[i+1] || (t[i] == t[i+1] && isB[i+1])
	}
	var pos []int
	for i := 0; i+1 < n; i++ {
		if isB[i] && !isB[i+1] {
			pos = append(pos, i)
		}
	}
	seen := map[string]bool{}
	for k, p := range pos {
		end := n
		if k+1 < len(pos) {
			end = pos[k+1] + 2
			if end > n {
				end = n
			}
		}
		s := string(t[p:end])
		if seen[s] {
			return true
		}
		seen[s] = true
	}
	return false
}

// ---------------------------------------------------------------------------
// Prefix groups (C10)

type segCall struct {
	m   int
	seg []int32
}

// checkSegments compares the callbacks of suffix.Segments with the brute-force
// prefix groups of t.
func checkSegments(t []byte, minLen, maxLen int, calls []segCall) error {
	n := len(t)
	// pairwise common prefix lengths
	cp := make([][]int16, n)
	for x := 0; x < n; x++ {
		cp[x] = make([]int16, n)
	}
	for x := 0; x < n; x++ {
		for y := x + 1; y < n; y++ {
			c := int16(commonPrefix(t[x:], t[y:]))
			cp[x][y], cp[y][x] = c, c
		}
	}
	count := make([][]int8, n)
	for x := range count {
		count[x] = make([]int8, n)
	}
	sets := make([]map[int32]bool, len(calls))
	for ci, c := range calls {
		if c.m < minLen || c.m > maxLen {
			return fmt.Errorf("callback %d: m=%d outside [minLen=%d, maxLen=%d]", ci, c.m, minLen, maxLen)
		}
		set := map[int32]bool{}
		for _, p := range c.seg {
			if p < 0 || int(p) >= n {
				return fmt.Errorf("callback %d (m=%d): member %d out of range", ci, c.m, p)
			}
			if set[p] {
				return fmt.Errorf("callback %d (m=%d): member %d occurs twice", ci, c.m, p)
			}
			set[p] = true
		}
		sets[ci] = set
		for i, x := range c.seg {
			for _, y := range c.seg[i+1:] {
				c0 := int(cp[x][y])
				if c0 < c.m {
					return fmt.Errorf("callback %d (m=%d): suffixes %d and %d share only %d bytes", ci, c.m, x, y, c0)
				}
				if minInt(c0, maxLen) == c.m {
					if count[x][y] < 100 {
						count[x][y]++
						count[y][x]++
					}
				}
			}
		}
	}
	for x := 0; x < n; x++ {
		for y := x + 1; y < n; y++ {
			c0 := int(cp[x][y])
			if c0 < minLen {
				continue
			}
			if count[x][y] != 1 {
				return fmt.Errorf("suffixes %d and %d share %d bytes (>= minLen %d): %d callbacks with m=%d contain both; want exactly 1",
					x, y, c0, minLen, count[x][y], minInt(c0, maxLen))
			}
		}
	}
	// order: a group with a longer common prefix comes before every group that
	// contains it.
	for i, a := range calls {
		for j := 0; j < i; j++ {
			b := calls[j]
			// b was reported before a; violation if a is strictly inside b
			// with a.m > b.m ... that is the allowed order (child first).
			// The forbidden order is: b contains... check the reverse.
			if b.m < a.m && len(a.seg) <= len(b.seg) && len(a.seg) > 0 {
				inside := true
				for _, p := range a.seg {
					if !sets[j][p] {
						inside = false
						break
					}
				}
				if inside {
					return fmt.Errorf("callback %d (m=%d, %d members) contains callback %d (m=%d) but was reported before it",
						j, b.m, len(b.seg), i, a.m)
				}
			}
		}
	}
	return nil
}

// lcpHasPartialDescent reports the LCP profile C10's non-triviality rule
// names: a value falls to a level that is still at least minLen (and not zero),
// e.g. ...3,2...: the group just closed is enclosed by a group that has to
// keep its left boundary.
func lcpHasPartialDescent(lcp []int32, minLen, maxLen int) bool {
	for i := 2; i < len(lcp); i++ {
		x, y := minInt(int(lcp[i-1]), maxLen), minInt(int(lcp[i]), maxLen)
		if x > y && y >= maxInt(minLen, 1) {
			return true
		}
	}
	return false
}
