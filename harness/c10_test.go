package harness

import (
	"encoding/json"
	"fmt"
	"testing"

	"github.com/ulikunitz/lz/suffix"
	"pgregory.net/rapid"
)

type segCase struct {
	Text   Bytes `json:"text"`
	MinLen int   `json:"minLen"`
	MaxLen int   `json:"maxLen"`
	// LibSA: sa and lcp computed by the library (true) or by the harness's
	// naive reference (false).
	LibSA bool `json:"libSA,omitempty"`
}

// checkSegCase decides C10 for one (text, minLen, maxLen).
func checkSegCase(c segCase) (msg string, bad bool, nontrivial bool) {
	defer func() {
		if r := recover(); r != nil {
			msg, bad = fmt.Sprintf("Segments panicked: %v", r), true
		}
	}()
	text := []byte(c.Text)
	n := len(text)
	var sa, lcp []int32
	if c.LibSA {
		sa = make([]int32, n)
		suffix.Sort(text, sa)
		lcp = make([]int32, n)
		suffix.LCP(text, sa, nil, lcp)
	} else {
		sa = naiveSuffixArray(text)
		lcp = naiveLCP(text, sa)
	}
	nontrivial = lcpHasPartialDescent(lcp, c.MinLen, c.MaxLen)
	var calls []segCall
	saArg := append([]int32(nil), sa...)
	suffix.Segments(saArg, lcp, c.MinLen, c.MaxLen, func(m int, seg []int32) {
		calls = append(calls, segCall{m, append([]int32(nil), seg...)})
	})
	if c.MaxLen < c.MinLen {
		// outside the property's quantifier (0 <= minLen <= maxLen): only
		// "nothing panics" is checked
		return "", false, false
	}
	if err := checkSegments(text, c.MinLen, c.MaxLen, calls); err != nil {
		return err.Error(), true, nontrivial
	}
	return "", false, nontrivial
}

func TestC10(t *testing.T) {
	st := statsFor("C10")
	rapid.Check(t, func(t *rapid.T) {
		maxLen := 48
		if rapid.IntRange(0, 9).Draw(t, "long") == 0 {
			maxLen = 160
		}
		text, fam := genSuffixText(t, maxLen)
		n := len(text)
		c := segCase{Text: text}
		c.MinLen = genSize(t, "minLen", n+1, 0, 1, 2, 3)
		switch weighted(t, "maxKind", 3, 2, 2) {
		case 0:
			c.MaxLen = c.MinLen + genSize(t, "maxLenD", n+1, 0, 1, 2)
		case 1:
			c.MaxLen = n + 1
		default:
			c.MaxLen = c.MinLen
		}
		if rapid.IntRange(0, 19).Draw(t, "maxBelow") == 0 && c.MinLen > 0 {
			c.MaxLen = c.MinLen - 1 // maxLen < minLen: nothing is reported
		}
		c.LibSA = rapid.Bool().Draw(t, "libSA")
		beginCase("C10", "", func() any { return c })
		msg, bad, nt := checkSegCase(c)
		endCase()
		if bad {
			recordFailure("C10", "", c, msg)
			t.Fatalf("C10 violated: %s", msg)
		}
		cl := []string{"family:" + fam}
		if n == 0 {
			cl = append(cl, "empty-text")
		}
		if c.MinLen == 0 {
			cl = append(cl, "minLen=0")
		}
		if c.LibSA {
			cl = append(cl, "sa-by-library")
		}
		st.eval(cl, nt, hashJSON(c), fam, func() any { return c })
	})
}

// TestC10Enum: all texts over {a,b} up to length $VERIF_C10_AB (default 9) and
// over {a,b,c} up to $VERIF_C10_ABC (default 5), each with every
// (minLen, maxLen), 0 <= minLen <= maxLen <= n+1.
func TestC10Enum(t *testing.T) {
	st := statsFor("C10")
	cnt := 0
	run := func(k, maxN int) {
		enumStrings(k, maxN, func(s []byte) {
			text := make([]byte, len(s))
			for i, c := range s {
				text[i] = 'a' + c
			}
			for lo := 0; lo <= len(text)+1; lo++ {
				for hi := lo; hi <= len(text)+1; hi++ {
					cnt++
					c := segCase{Text: cloneBytes(text), MinLen: lo, MaxLen: hi}
					msg, bad, nt := checkSegCase(c)
					if bad {
						recordFailure("C10", "enum", c, msg)
						t.Errorf("C10 violated on %q minLen=%d maxLen=%d: %s", text, lo, hi, msg)
						return
					}
					st.eval([]string{"enumerated"}, nt, hashJSON(c), "enum", func() any { return c })
				}
			}
		})
	}
	ab, abc := envInt("VERIF_C10_AB", 9), envInt("VERIF_C10_ABC", 5)
	run(2, ab)
	run(3, abc)
	st.note("enumerated all texts over {a,b} up to length %d and over {a,b,c} up to length %d with all (minLen, maxLen)", ab, abc)
	fmt.Printf("ENUM-DONE %d\n", cnt)
}

func init() {
	replayers["C10"] = func(raw json.RawMessage) (string, bool, error) {
		var c segCase
		if err := json.Unmarshal(raw, &c); err != nil {
			return "", false, err
		}
		msg, bad, _ := checkSegCase(c)
		return msg, bad, nil
	}
}
