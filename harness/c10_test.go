package harness

import (
	"encoding/json"
	"fmt"
	"testing"

	"github.com/ulikunitz/lz/suffix"
	"pgregory.net/rapid"
)

type segCase struct {
	Text   Bytes `json:"text"`
	MinLen int   `json:"minLen"`
	MaxLen int   `json:"maxLen"`
	// LibSA: sa and lcp computed by the library (true) or by the harness's
	// naive reference (false).
	LibSA bool `json:"libSA,omitempty"`
	// Before: earlier Segments calls (minLen, maxLen) made on the same sa/lcp
	// tables, which the caller never modified in between; the call judged is
	// (MinLen, MaxLen) and every earlier call is judged as well.
	Before [][2]int `json:"before,omitempty"`
	// Nested: the first callback of the call judged calls Segments itself, on
	// the tables of the reversed text (a callback may use the package).
	Nested bool `json:"nested,omitempty"`
}

// checkSegCase decides C10 for one (text, minLen, maxLen).
func checkSegCase(c segCase) (msg string, bad bool, nontrivial bool) {
	defer func() {
		if r := recover(); r != nil {
			msg, bad = fmt.Sprintf("Segments panicked: %v", r), true
		}
	}()
	text := []byte(c.Text)
	n := len(text)
	var sa, lcp []int32
	if c.LibSA {
		sa = make([]int32, n)
		suffix.Sort(text, sa)
		lcp = make([]int32, n)
		suffix.LCP(text, sa, nil, lcp)
	} else {
		sa = naiveSuffixArray(text)
		lcp = naiveLCP(text, sa)
	}
	nontrivial = lcpHasPartialDescent(lcp, c.MinLen, c.MaxLen)
	var text2 []byte
	var sa2, lcp2 []int32
	if c.Nested {
		// another text with a table of its own (deep nesting of groups that
		// stay open up to the end of its table)
		text2 = []byte("mississippi zzyzzyzzy")
		if n%2 == 1 {
			text2 = []byte("abababababab")
		}
		sa2 = naiveSuffixArray(text2)
		lcp2 = naiveLCP(text2, sa2)
	}
	pairs := append(append([][2]int(nil), c.Before...), [2]int{c.MinLen, c.MaxLen})
	// The tables live in one allocation, the way a caller with an arena lays
	// them out: lcp | sa | guard words. The slices handed over have spare
	// capacity that reaches into what follows them; nothing behind their
	// length belongs to Segments.
	const guard = 3
	arena := make([]int32, 2*n+guard)
	lcpArg := arena[:n]
	copy(lcpArg, lcp)
	for ci, pr := range pairs {
		var calls []segCall
		// sa may be permuted by Segments (documented); lcp is the caller's
		// table and is handed over again as it is.
		saArg := arena[n : 2*n]
		copy(saArg, sa)
		for i := 0; i < guard; i++ {
			arena[2*n+i] = int32(-7770 - i)
		}
		var nestedCalls []segCall
		var nestedErr error
		nestedDone := false
		suffix.Segments(saArg, lcpArg, pr[0], pr[1], func(m int, seg []int32) {
			calls = append(calls, segCall{m, append([]int32(nil), seg...)})
			// every callback of the call judged (the groups closed at the end
			// of the table come last) makes a call of its own
			if c.Nested && ci == len(pairs)-1 && len(calls) <= 64 {
				nestedDone = true
				nestedCalls = nestedCalls[:0]
				suffix.Segments(append([]int32(nil), sa2...), append([]int32(nil), lcp2...), 1, len(text2)+1, func(m2 int, seg2 []int32) {
					nestedCalls = append(nestedCalls, segCall{m2, append([]int32(nil), seg2...)})
				})
			}
		})
		if nestedDone {
			// the result of the last nested call is judged (all of them see
			// the same tables); the outer call is judged below as always
			if nestedErr = checkSegments(text2, 1, len(text2)+1, nestedCalls); nestedErr != nil {
				return fmt.Sprintf("a Segments call made from inside a callback: %v", nestedErr), true, nontrivial
			}
		}
		for i := 0; i < guard; i++ {
			if arena[2*n+i] != int32(-7770-i) {
				return fmt.Sprintf("call %d (minLen=%d, maxLen=%d): Segments wrote behind the end of the suffix array it was given (word %d behind it is now %d)", ci+1, pr[0], pr[1], i, arena[2*n+i]), true, nontrivial
			}
		}
		if pr[1] < pr[0] {
			// outside the property's quantifier (0 <= minLen <= maxLen): only
			// "nothing panics" is checked
			continue
		}
		if err := checkSegments(text, pr[0], pr[1], calls); err != nil {
			if ci > 0 {
				return fmt.Sprintf("call %d on the same tables (minLen=%d, maxLen=%d): %v", ci+1, pr[0], pr[1], err), true, nontrivial
			}
			return err.Error(), true, nontrivial
		}
	}
	return "", false, nontrivial
}

// genSegLens draws (minLen, maxLen) for a text of n bytes, with mass on the
// boundaries of the accepted range (maxLen up to MaxInt32).
func genSegLens(t *rapid.T, n int) (lo, hi int) {
	lo = genSize(t, "minLen", n+1, 0, 1, 2, 3)
	switch weighted(t, "maxKind", 3, 2, 2, 1, 1) {
	case 4:
		// the number of levels that can be reported is around a word size
		hi = lo + rapid.SampledFrom([]int{63, 64, 62, 65, 31, 32, 33, 127, 128, 7, 8, 15, 16}).Draw(t, "maxLenWord")
	case 0:
		hi = lo + genSize(t, "maxLenD", n+1, 0, 1, 2)
	case 1:
		hi = n + 1
	case 2:
		hi = lo
	default:
		hi = rapid.SampledFrom([]int{n + 2, 2*n + 7, 1 << 16, 1 << 20, 1<<31 - 2, 1<<31 - 1}).Draw(t, "maxLenBig")
		if rapid.IntRange(0, 3).Draw(t, "minBig") == 0 {
			lo = rapid.SampledFrom([]int{n + 1, n + 2, 1 << 16, 1<<31 - 1}).Draw(t, "minLenBig")
			if lo > hi {
				hi = lo
			}
		}
	}
	if rapid.IntRange(0, 19).Draw(t, "maxBelow") == 0 && lo > 0 {
		hi = lo - 1 // maxLen < minLen: nothing is reported
	}
	return lo, hi
}

func TestC10(t *testing.T) {
	st := statsFor("C10")
	rapid.Check(t, func(t *rapid.T) {
		maxLen := 48
		if rapid.IntRange(0, 9).Draw(t, "long") == 0 {
			maxLen = 160
		}
		text, fam := genSuffixText(t, maxLen)
		n := len(text)
		c := segCase{Text: text}
		c.MinLen, c.MaxLen = genSegLens(t, n)
		if n <= 48 && rapid.IntRange(0, 9).Draw(t, "again") < 4 {
			// earlier calls on the same tables
			for k := rapid.IntRange(1, 2).Draw(t, "nBefore"); k > 0; k-- {
				lo, hi := genSegLens(t, n)
				c.Before = append(c.Before, [2]int{lo, hi})
			}
		}
		c.LibSA = rapid.Bool().Draw(t, "libSA")
		c.Nested = n <= 32 && rapid.IntRange(0, 4).Draw(t, "nested") == 0
		beginCase("C10", "", func() any { return c })
		defer endCase() // also when rapid abandons the case half-way (fuzzing: input used up)
		msg, bad, nt := checkSegCase(c)
		endCase()
		if bad {
			recordFailure("C10", "", c, msg)
			t.Fatalf("C10 violated: %s", msg)
		}
		cl := []string{"family:" + fam}
		if n == 0 {
			cl = append(cl, "empty-text")
		}
		if c.MinLen == 0 {
			cl = append(cl, "minLen=0")
		}
		if c.LibSA {
			cl = append(cl, "sa-by-library")
		}
		if len(c.Before) > 0 {
			cl = append(cl, "repeated-calls-on-same-tables")
		}
		if c.MaxLen > n+1 {
			cl = append(cl, "maxLen-beyond-text")
		}
		st.eval(cl, nt, hashJSON(c), fam, func() any { return c })
	})
}

// genDeepText: a few long runs and short-period stretches over a two or three
// letter alphabet (up to about 700 bytes): hundreds of groups are open at the
// same time, the nesting depth falls by a part and rises again.
func genDeepText(t *rapid.T) []byte {
	letters := []byte("abc")[:rapid.IntRange(2, 3).Draw(t, "deepAlpha")]
	var text []byte
	for k := rapid.IntRange(2, 6).Draw(t, "deepParts"); k > 0 && len(text) < 700; k-- {
		var L int
		switch rapid.IntRange(0, 3).Draw(t, "deepLenKind") {
		case 0:
			L = rapid.IntRange(1, 20).Draw(t, "deepShort")
		case 1:
			L = rapid.IntRange(120, 140).Draw(t, "deepAround128")
		default:
			L = rapid.IntRange(100, 270).Draw(t, "deepLong")
		}
		w := 1
		if rapid.IntRange(0, 3).Draw(t, "deepPeriodic") == 0 {
			w = rapid.IntRange(2, 3).Draw(t, "deepPeriod")
		}
		word := make([]byte, w)
		for i := range word {
			word[i] = rapid.SampledFrom(letters).Draw(t, "deepLetter")
		}
		for i := 0; i < L; i++ {
			text = append(text, word[i%w])
		}
	}
	if len(text) > 700 {
		text = text[:700]
	}
	return text
}

// TestC10Deep: nesting depths of 100 and more (see genDeepText); the maximum
// length mostly does not cut the groups.
func TestC10Deep(t *testing.T) {
	st := statsFor("C10")
	rapid.Check(t, func(t *rapid.T) {
		text := genDeepText(t)
		n := len(text)
		c := segCase{Text: text, LibSA: rapid.Bool().Draw(t, "libSA")}
		switch rapid.IntRange(0, 3).Draw(t, "deepLens") {
		case 0:
			c.MinLen, c.MaxLen = genSegLens(t, n)
		case 1:
			c.MinLen, c.MaxLen = rapid.IntRange(0, 3).Draw(t, "minLen"), rapid.IntRange(100, 300).Draw(t, "maxLenAround")
			if rapid.Bool().Draw(t, "deepWord") {
				c.MinLen = rapid.IntRange(0, 40).Draw(t, "minLenDeep")
				c.MaxLen = c.MinLen + rapid.SampledFrom([]int{63, 64, 62, 65, 31, 32, 33, 127, 128}).Draw(t, "maxLenWord")
			}
		default:
			c.MinLen, c.MaxLen = rapid.IntRange(0, 3).Draw(t, "minLen"), n+1
		}
		beginCase("C10", "deep", func() any { return c })
		defer endCase()
		msg, bad, nt := checkSegCase(c)
		endCase()
		if bad {
			recordFailure("C10", "deep", c, msg)
			t.Fatalf("C10 violated: %s", msg)
		}
		st.eval([]string{"deep-nesting"}, nt, hashJSON(c), "deep", func() any { return c })
	})
}

// hugeSegCase: a run of N equal bytes, optionally followed by one smaller byte
// (ten million nested groups, open at the same time); sa and lcp are written
// down directly, the groups are known in closed form.
type hugeSegCase struct {
	N       int  `json:"hugeRun"`
	Smaller bool `json:"smallerByteBehind"`
	MinLen  int  `json:"minLen"`
	MaxLen  int  `json:"maxLen"`
}

func checkHugeSegCase(c hugeSegCase) (msg string, bad bool) {
	defer func() {
		if r := recover(); r != nil {
			msg, bad = fmt.Sprintf("Segments panicked: %v", r), true
		}
	}()
	n := c.N
	total := n
	if c.Smaller {
		total++
	}
	sa := make([]int32, total)
	lcp := make([]int32, total)
	// suffix i of the run has n-i run bytes. Without the byte behind: sorted
	// by length ascending, lcp[k] = k. With a smaller byte behind: that byte
	// first, then the same order, lcp 0, 0, 1, 2, ...
	o := 0
	if c.Smaller {
		sa[0] = int32(n)
		o = 1
	}
	for k := 0; k < n; k++ {
		sa[o+k] = int32(n - 1 - k)
		lcp[o+k] = int32(k)
	}
	runLen := func(p int32) int { // number of run bytes suffix p starts with
		if int(p) >= n {
			return 0
		}
		return n - int(p)
	}
	if c.MinLen < 1 {
		return "", false // the closed form below is for minLen >= 1
	}
	want := minInt(c.MaxLen, n-1) // m of the first callback: two suffixes of the run share at most n-1 bytes
	calls := 0
	var fail string
	suffix.Segments(sa, lcp, c.MinLen, c.MaxLen, func(m int, seg []int32) {
		calls++
		if fail != "" {
			return
		}
		if m != want {
			fail = fmt.Sprintf("callback %d has m=%d; the groups of a run come with m = %d, %d, ... down to minLen", calls, m, minInt(c.MaxLen, n-1), minInt(c.MaxLen, n-1)-1)
			return
		}
		want--
		// the group for m: all suffixes with at least m run bytes
		size := n - m + 1
		if len(seg) != size {
			fail = fmt.Sprintf("callback %d (m=%d) has %d members; %d suffixes share %d bytes", calls, m, len(seg), size, m)
			return
		}
		if len(seg) <= 64 || calls <= 3 {
			seen := map[int32]bool{}
			for _, p := range seg {
				if p < 0 || int(p) >= total || runLen(p) < m || seen[p] {
					fail = fmt.Sprintf("callback %d (m=%d): member %d is out of range, too short or occurs twice", calls, m, p)
					return
				}
				seen[p] = true
			}
		}
	})
	if fail != "" {
		return fail, true
	}
	lo := c.MinLen
	expect := minInt(c.MaxLen, n-1) - lo + 1
	if expect < 0 {
		expect = 0
	}
	if calls != expect {
		return fmt.Sprintf("%d callbacks; a run of %d bytes has one group for every m from %d down to %d", calls, n, minInt(c.MaxLen, n-1), lo), true
	}
	return "", false
}

// TestC10Huge: see hugeSegCase. A failure of this kind may end the process (a
// stack overflow cannot be recovered): the case is marked as running.
func TestC10Huge(t *testing.T) {
	st := statsFor("C10")
	rapid.Check(t, func(t *rapid.T) {
		c := hugeSegCase{N: 10_000_000 + 500_000*rapid.IntRange(0, 5).Draw(t, "hugeN"), Smaller: rapid.Bool().Draw(t, "smallerBehind")}
		switch rapid.IntRange(0, 3).Draw(t, "hugeLens") {
		case 0:
			c.MinLen, c.MaxLen = c.N-3, c.N
		case 1:
			c.MinLen, c.MaxLen = c.N-2, 1<<31-1
		case 2:
			c.MinLen, c.MaxLen = 6_000_000-2, 6_000_000
		default:
			c.MinLen, c.MaxLen = c.N-1-rapid.IntRange(0, 40).Draw(t, "hugeBelow"), c.N+rapid.IntRange(-1, 1).Draw(t, "hugeAround")
		}
		markRunning("C10", "huge", c, "the process ended (fatal error of the Go runtime) while Segments worked on this case")
		beginCase("C10", "huge", func() any { return c })
		defer endCase()
		msg, bad := checkHugeSegCase(c)
		endCase()
		clearRunning("C10", "huge")
		if bad {
			recordFailure("C10", "huge", c, msg)
			t.Fatalf("C10 violated (huge run): %s", msg)
		}
		st.eval([]string{"huge-run:>=10^7-nested-groups"}, true, hashJSON(c), "huge", func() any { return c })
	})
}

// genRankText: a text of 1100..2700 bytes without repeats of 4 and more bytes
// (bytes spread over 250 values) except one planted pair "v 0 0 0", built so
// that the pair sits at a chosen index of the LCP table (exactly T-1 suffixes
// sort in front of it): T is a power of two, a multiple of 256, or next to
// one. What a scan does at particular table indexes (chunks, blocks, word
// boundaries) meets a group there, with nothing reportable around it.
func genRankText(t *rapid.T) ([]byte, int) {
	T := rapid.SampledFrom([]int{1024, 2048, 512, 256, 1023, 1025, 768, 1536, 2047, 64}).Draw(t, "rankIndex")
	n := maxInt(T+200, 1100) + rapid.IntRange(0, 600).Draw(t, "rankExtra")
	const v = 128
	low := T - 1 - 6 // bytes below v besides the six zeros of the pair
	if low < 0 {
		low = 0
	}
	seed := rapid.Uint64().Draw(t, "rankSeed")
	next := func() uint64 {
		seed += 0x9e3779b97f4a7c15
		z := seed
		z = (z ^ (z >> 30)) * 0xbf58476d1ce4e5b9
		z = (z ^ (z >> 27)) * 0x94d049bb133111eb
		return z ^ (z >> 31)
	}
	body := make([]byte, 0, n)
	for i := 0; i < low; i++ {
		body = append(body, 1+byte(next()%(v-1)))
	}
	for len(body) < n-8 {
		body = append(body, v+1+byte(next()%(255-v)))
	}
	for i := len(body) - 1; i > 0; i-- { // shuffle
		j := int(next() % uint64(i+1))
		body[i], body[j] = body[j], body[i]
	}
	a := int(next() % uint64(len(body)-2))
	b := a + 1 + int(next()%uint64(len(body)-a-1))
	pair := []byte{v, 0, 0, 0}
	out := append([]byte{}, body[:a]...)
	out = append(out, pair...)
	out = append(out, body[a:b]...)
	out = append(out, pair...)
	out = append(out, body[b:]...)
	return out, T
}

// TestC10Rank: see genRankText; minLen 4 (or 3, 2), maxLen from genSegLens or
// large.
func TestC10Rank(t *testing.T) {
	st := statsFor("C10")
	rapid.Check(t, func(t *rapid.T) {
		text, T := genRankText(t)
		c := segCase{Text: text, LibSA: rapid.Bool().Draw(t, "libSA")}
		c.MinLen = rapid.SampledFrom([]int{4, 4, 3, 2, 1}).Draw(t, "minLen")
		c.MaxLen = c.MinLen + rapid.SampledFrom([]int{0, 1, 60, 63, 1 << 20}).Draw(t, "maxLenBy")
		beginCase("C10", "rank", func() any { return c })
		defer endCase()
		msg, bad, nt := checkSegCase(c)
		endCase()
		if bad {
			recordFailure("C10", "rank", c, msg)
			t.Fatalf("C10 violated (a group at table index %d): %s", T, msg)
		}
		st.eval([]string{"group-at-chosen-table-index"}, nt || c.MinLen >= 4, hashJSON(c), "rank", func() any {
			return map[string]any{"text_bytes": len(text), "table_index": T, "minLen": c.MinLen, "maxLen": c.MaxLen}
		})
	})
}

// TestC10Enum: all texts over {a,b} up to length $VERIF_C10_AB (default 9) and
// over {a,b,c} up to $VERIF_C10_ABC (default 5), each with every
// (minLen, maxLen), 0 <= minLen <= maxLen <= n+1.
func TestC10Enum(t *testing.T) {
	st := statsFor("C10")
	cnt := 0
	run := func(k, maxN int) {
		enumStrings(k, maxN, func(s []byte) {
			text := make([]byte, len(s))
			for i, c := range s {
				text[i] = 'a' + c
			}
			// every (minLen, maxLen) is judged as a first call; in addition
			// the pairs run as one sequence of calls on the same tables: the
			// case of a pair carries the pairs in front of it.
			var before [][2]int
			for lo := 0; lo <= len(text)+1; lo++ {
				for hi := lo; hi <= len(text)+1; hi++ {
					cnt++
					c := segCase{Text: cloneBytes(text), MinLen: lo, MaxLen: hi}
					msg, bad, nt := checkSegCase(c)
					if bad {
						recordFailure("C10", "enum", c, msg)
						t.Errorf("C10 violated on %q minLen=%d maxLen=%d: %s", text, lo, hi, msg)
						return
					}
					st.eval([]string{"enumerated"}, nt, hashJSON(c), "enum", func() any { return c })
					before = append(before, [2]int{lo, hi})
				}
			}
			if len(before) > 1 {
				last := before[len(before)-1]
				// descending maxLen first, then everything ascending
				seq := [][2]int{{0, 1}, {1, 1}}
				seq = append(seq, before[:len(before)-1]...)
				c := segCase{Text: cloneBytes(text), MinLen: last[0], MaxLen: last[1], Before: seq}
				msg, bad, _ := checkSegCase(c)
				if bad {
					recordFailure("C10", "enum", c, msg)
					t.Errorf("C10 violated on %q (calls repeated on the same tables): %s", text, msg)
					return
				}
				st.class("repeated-calls-on-same-tables")
			}
		})
	}
	ab, abc := envInt("VERIF_C10_AB", 9), envInt("VERIF_C10_ABC", 5)
	run(2, ab)
	run(3, abc)
	st.note("enumerated all texts over {a,b} up to length %d and over {a,b,c} up to length %d with all (minLen, maxLen)", ab, abc)
	fmt.Printf("ENUM-DONE %d\n", cnt)
}

func init() {
	replayers["C10"] = func(raw json.RawMessage) (string, bool, error) {
		var h hugeSegCase
		if err := json.Unmarshal(raw, &h); err == nil && h.N > 0 {
			msg, bad := checkHugeSegCase(h)
			return msg, bad, nil
		}
		var c segCase
		if err := json.Unmarshal(raw, &c); err != nil {
			return "", false, err
		}
		msg, bad, _ := checkSegCase(c)
		return msg, bad, nil
	}
}
