package harness

import (
	"fmt"
	"math/bits"
	"pgregory.net/rapid"
	"testing"
)

// ---------------------------------------------------------------- C01

var propC01 = parserProp{
	prop:   "C01",
	maxBuf: 400,
	opts: func(kind string) histOpts {
		o := defaultHistOpts()
		if kind == "GSAP" || kind == "OSAP" {
			// OSAP never re-verifies what the suffix structures tell it
			o.suffixPct = 25
		}
		return o
	},
	classify: func(x *parserExec) ([]string, bool) {
		var cl []string
		if x.matchAfterShrink {
			cl = append(cl, "match-after-shrink")
		}
		if x.fills >= 1 {
			cl = append(cl, "refilled")
		}
		if x.fills >= 2 {
			cl = append(cl, "refilled>=2")
		}
		if x.ntlWithSeq > 0 {
			cl = append(cl, "ntl-with-seq")
		}
		if x.resetWithCap > 0 {
			cl = append(cl, "reset-with-cap")
		}
		if x.nMatches > 0 {
			cl = append(cl, "has-match")
		}
		cl = append(cl, fmt.Sprintf("dbg-blocks:%d", minInt(x.nBlocks, 5)))
		cl = append(cl, fmt.Sprintf("dbg-fedlog2:%d", bits.Len(uint(len(x.fed)))))
		cl = append(cl, fmt.Sprintf("dbg-ops:%d", len(x.log)/5*5))
		nt := x.nBlocks >= 2 && x.nMatches >= 1 &&
			(x.matchAfterShrink || x.fills >= 1 || x.ntlWithSeq > 0 || x.resetWithCap > 0)
		return cl, nt
	},
}

func TestC01(t *testing.T) { propC01.run(t, Kinds) }

// ---------------------------------------------------------------- C02

var propC02 = parserProp{
	prop:   "C02",
	maxBuf: 400,
	opts: func(kind string) histOpts {
		o := defaultHistOpts()
		o.parseNil = 2
		o.triplePct = 10
		return o
	},
	classify: func(x *parserExec) ([]string, bool) {
		var cl []string
		if x.offsetEqWindow > 0 {
			cl = append(cl, "offset==WindowSize")
		}
		if x.minLenMatches > 0 {
			cl = append(cl, "match-of-minimum-length")
		}
		if x.parseNils > 0 {
			cl = append(cl, "with-parse-nil")
		}
		if x.streamBeyondWindow {
			cl = append(cl, "match-beyond-window-distance")
		}
		return cl, x.nMatches >= 1 && x.streamBeyondWindow
	},
}

func TestC02(t *testing.T) { propC02.run(t, Kinds) }

// hugeWindowTweak: "no window limit" configurations - the largest window sizes
// Verify accepts (2^32-8, MaxInt32 for GSAP) and values a little below - with
// a buffer of at least 64 bytes, blocks shorter than the buffer and mostly
// small hash tables, so that the offset arithmetic of the parsers is exercised
// where distance + WindowSize passes 2^32 (2^31).
func hugeWindowTweak(t *rapid.T, c *PCfg) {
	top := 1<<32 - 8
	if c.Kind == "GSAP" {
		top = 1<<31 - 1
	}
	c.WindowSize = top - rapid.SampledFrom([]int{0, 0, 0, 1, 2, 7, 8, 9, 30, 100, 300}).Draw(t, "hwBelow")
	if c.BufferSize != 0 && c.BufferSize < 64 {
		c.BufferSize += 64
	}
	if c.BufferSize == 0 {
		c.BufferSize = 256
	}
	if c.ShrinkSize >= c.BufferSize {
		c.ShrinkSize = 0
	}
	if rapid.IntRange(0, 2).Draw(t, "hwBlk") > 0 {
		c.BlockSize = rapid.IntRange(8, maxInt(c.BufferSize/2, 9)).Draw(t, "hwBlkSize")
	}
	if rapid.IntRange(0, 2).Draw(t, "hwBits") > 0 {
		hb := rapid.IntRange(1, 6).Draw(t, "hwHashBits")
		if c.HashBits != 0 || c.Kind == "HP" || c.Kind == "BHP" || c.Kind == "BUP" {
			c.HashBits = hb
		}
		if c.Kind == "DHP" || c.Kind == "BDHP" {
			c.HashBits1, c.HashBits2 = hb, rapid.IntRange(1, 6).Draw(t, "hwHashBits2")
		}
	}
}

var propC02Huge = func() parserProp {
	pp := propC02
	pp.tweak = hugeWindowTweak
	pp.opts = func(kind string) histOpts {
		o := defaultHistOpts()
		o.parseNil = 1
		o.ntl = 50
		o.ntlPair = 6
		o.uniformPct = 40
		o.tinyPct = 0
		return o
	}
	return pp
}()

func TestC02Huge(t *testing.T) { propC02Huge.run(t, Kinds) }

// ---------------------------------------------------------------- C03

var propC03 = parserProp{
	prop:   "C03",
	maxBuf: 400,
	opts: func(kind string) histOpts {
		o := defaultHistOpts()
		o.ntl = 50
		return o
	},
	classify: func(x *parserExec) ([]string, bool) {
		var cl []string
		if x.ntlWithSeq > 0 {
			cl = append(cl, "ntl-with-seq")
		}
		if x.ntlCut > 0 {
			cl = append(cl, "ntl-cut-short")
		}
		if x.nBlocks >= 3 {
			cl = append(cl, "blocks>=3")
		}
		return cl, x.ntlCut > 0 || x.nBlocks >= 3
	},
}

func TestC03(t *testing.T) { propC03.run(t, Kinds) }

// ---------------------------------------------------------------- C14

var propC14 = parserProp{
	prop:   "C14",
	maxBuf: 400,
	opts: func(kind string) histOpts {
		o := defaultHistOpts()
		o.parseNil = 6
		o.resetDat = 0
		return o
	},
	classify: func(x *parserExec) ([]string, bool) {
		var cl []string
		if x.parseNils > 0 {
			cl = append(cl, "with-parse-nil")
		}
		if x.matchIntoSkipped {
			cl = append(cl, "match-source-in-skipped-bytes")
		}
		if x.nilAcrossShrink {
			cl = append(cl, "parse-nil-then-shrink")
		}
		return cl, x.matchIntoSkipped || x.nilAcrossShrink
	},
}

func TestC14(t *testing.T) { propC14.run(t, Kinds) }

// ---------------------------------------------------------------- C15

var propC15 = parserProp{
	prop:   "C15",
	maxBuf: 200,
	opts: func(kind string) histOpts {
		o := defaultHistOpts()
		o.readAt, o.byteAt = 8, 6
		o.parseNil = 1
		o.overReset = true
		o.faults = true
		o.resetDat = 2
		o.readFrom = 8
		if kind == "BUF" {
			o.peekAt = 6
		}
		return o
	},
	classify: func(x *parserExec) ([]string, bool) {
		var cl []string
		if x.shrinkPos > 0 {
			cl = append(cl, "shrink>0")
		}
		if x.shrinkPos > 0 && x.readsAfterShrink >= 2 {
			cl = append(cl, "reads-after-shrink")
		}
		if x.readFromFull {
			cl = append(cl, "readfrom-hit-capacity")
		}
		if x.resetWithCap > 0 {
			cl = append(cl, "reset-with-cap")
		}
		return cl, (x.shrinkPos > 0 && x.readsAfterShrink >= 2) || x.readFromFull
	},
}

func TestC15(t *testing.T) { propC15.run(t, append([]string{"BUF"}, Kinds...)) }

func init() {
	replayers["C15"] = propC15.replayer()
	replayers["C02"] = propC02.replayer()
	replayers["C03"] = propC03.replayer()
	replayers["C14"] = propC14.replayer()
}
