package harness

import (
	"fmt"
	"math/bits"
	"pgregory.net/rapid"
	"testing"
)

// ---------------------------------------------------------------- C01

var propC01 = parserProp{
	prop:   "C01",
	maxBuf: 400,
	opts: func(kind string) histOpts {
		o := defaultHistOpts()
		if kind == "GSAP" || kind == "OSAP" {
			// OSAP never re-verifies what the suffix structures tell it
			o.suffixPct = 25
		}
		return o
	},
	classify: func(x *parserExec) ([]string, bool) {
		var cl []string
		if x.matchAfterShrink {
			cl = append(cl, "match-after-shrink")
		}
		if x.fills >= 1 {
			cl = append(cl, "refilled")
		}
		if x.fills >= 2 {
			cl = append(cl, "refilled>=2")
		}
		if x.ntlWithSeq > 0 {
			cl = append(cl, "ntl-with-seq")
		}
		if x.resetWithCap > 0 {
			cl = append(cl, "reset-with-cap")
		}
		if x.nMatches > 0 {
			cl = append(cl, "has-match")
		}
		cl = append(cl, fmt.Sprintf("dbg-blocks:%d", minInt(x.nBlocks, 5)))
		cl = append(cl, fmt.Sprintf("dbg-fedlog2:%d", bits.Len(uint(len(x.fed)))))
		cl = append(cl, fmt.Sprintf("dbg-ops:%d", len(x.log)/5*5))
		nt := x.nBlocks >= 2 && x.nMatches >= 1 &&
			(x.matchAfterShrink || x.fills >= 1 || x.ntlWithSeq > 0 || x.resetWithCap > 0)
		return cl, nt
	},
}

func TestC01(t *testing.T) { propC01.run(t, Kinds) }

// ---------------------------------------------------------------- C02

var propC02 = parserProp{
	prop:   "C02",
	maxBuf: 400,
	opts: func(kind string) histOpts {
		o := defaultHistOpts()
		o.parseNil = 2
		o.triplePct = 10
		return o
	},
	classify: func(x *parserExec) ([]string, bool) {
		var cl []string
		if x.offsetEqWindow > 0 {
			cl = append(cl, "offset==WindowSize")
		}
		if x.minLenMatches > 0 {
			cl = append(cl, "match-of-minimum-length")
		}
		if x.parseNils > 0 {
			cl = append(cl, "with-parse-nil")
		}
		if x.streamBeyondWindow {
			cl = append(cl, "match-beyond-window-distance")
		}
		return cl, x.nMatches >= 1 && x.streamBeyondWindow
	},
}

func TestC02(t *testing.T) { propC02.run(t, Kinds) }

// hugeWindowTweak: "no window limit" configurations - the largest window sizes
// Verify accepts (2^32-8, MaxInt32 for GSAP) and values a little below - with
// a buffer of at least 64 bytes, blocks shorter than the buffer and mostly
// small hash tables, so that the offset arithmetic of the parsers is exercised
// where distance + WindowSize passes 2^32 (2^31).
func hugeWindowTweak(t *rapid.T, c *PCfg) {
	top := 1<<32 - 8
	if c.Kind == "GSAP" {
		top = 1<<31 - 1
	}
	c.WindowSize = top - rapid.SampledFrom([]int{0, 0, 0, 1, 2, 7, 8, 9, 30, 100, 300}).Draw(t, "hwBelow")
	if c.BufferSize != 0 && c.BufferSize < 64 {
		c.BufferSize += 64
	}
	if c.BufferSize == 0 {
		c.BufferSize = 256
	}
	if c.ShrinkSize >= c.BufferSize {
		c.ShrinkSize = 0
	}
	if rapid.IntRange(0, 2).Draw(t, "hwBlk") > 0 {
		c.BlockSize = rapid.IntRange(8, maxInt(c.BufferSize/2, 9)).Draw(t, "hwBlkSize")
	}
	if rapid.IntRange(0, 2).Draw(t, "hwBits") > 0 {
		hb := rapid.IntRange(1, 6).Draw(t, "hwHashBits")
		if c.HashBits != 0 || c.Kind == "HP" || c.Kind == "BHP" || c.Kind == "BUP" {
			c.HashBits = hb
		}
		if c.Kind == "DHP" || c.Kind == "BDHP" {
			c.HashBits1, c.HashBits2 = hb, rapid.IntRange(1, 6).Draw(t, "hwHashBits2")
		}
	}
}

var propC02Huge = func() parserProp {
	pp := propC02
	pp.tweak = hugeWindowTweak
	pp.opts = func(kind string) histOpts {
		o := defaultHistOpts()
		o.parseNil = 1
		o.ntl = 50
		o.ntlPair = 6
		o.uniformPct = 40
		o.tinyPct = 0
		return o
	}
	return pp
}()

func TestC02Huge(t *testing.T) { propC02Huge.run(t, Kinds) }

// TestC02Skip: small windows and blocks in a buffer that holds several of them,
// every third to fourth step a Parse(nil): the search structures are filled by
// the skipping calls and by the parsing calls in turn, with data behind the
// skipped block already buffered, and most candidates lie around the window
// distance.
var propC02Skip = func() parserProp {
	pp := propC02
	pp.tweak = func(t *rapid.T, c *PCfg) {
		c.WindowSize = rapid.IntRange(1, 24).Draw(t, "skWindow")
		if (c.Kind == "GSAP" || c.Kind == "OSAP") && c.WindowSize < maxInt(c.MinMatchLen, 3) {
			c.WindowSize = maxInt(c.MinMatchLen, 3)
		}
		c.BlockSize = rapid.IntRange(2, 20).Draw(t, "skBlock")
		if c.BufferSize != 0 && c.BufferSize < 48 {
			c.BufferSize += 48
		}
		if c.ShrinkSize >= c.BufferSize && c.BufferSize != 0 {
			c.ShrinkSize = 0
		}
	}
	pp.opts = func(kind string) histOpts {
		o := defaultHistOpts()
		o.parseNil = 7
		o.parse = 8
		o.tinyPct = 35
		o.zeroPct = 30
		return o
	}
	return pp
}()

func TestC02Skip(t *testing.T) { propC02Skip.run(t, Kinds) }

// ---------------------------------------------------------------- C03

var propC03 = parserProp{
	prop:   "C03",
	maxBuf: 400,
	opts: func(kind string) histOpts {
		o := defaultHistOpts()
		o.ntl = 50
		return o
	},
	classify: func(x *parserExec) ([]string, bool) {
		var cl []string
		if x.ntlWithSeq > 0 {
			cl = append(cl, "ntl-with-seq")
		}
		if x.ntlCut > 0 {
			cl = append(cl, "ntl-cut-short")
		}
		if x.nBlocks >= 3 {
			cl = append(cl, "blocks>=3")
		}
		return cl, x.ntlCut > 0 || x.nBlocks >= 3
	},
}

func TestC03(t *testing.T) { propC03.run(t, Kinds) }

// ---------------------------------------------------------------- C14

var propC14 = parserProp{
	prop:   "C14",
	maxBuf: 400,
	opts: func(kind string) histOpts {
		o := defaultHistOpts()
		o.parseNil = 6
		o.resetDat = 0
		return o
	},
	classify: func(x *parserExec) ([]string, bool) {
		var cl []string
		if x.parseNils > 0 {
			cl = append(cl, "with-parse-nil")
		}
		if x.matchIntoSkipped {
			cl = append(cl, "match-source-in-skipped-bytes")
		}
		if x.nilAcrossShrink {
			cl = append(cl, "parse-nil-then-shrink")
		}
		return cl, x.matchIntoSkipped || x.nilAcrossShrink
	},
}

func TestC14(t *testing.T) { propC14.run(t, Kinds) }

// ---------------------------------------------------------------- C15

var propC15 = parserProp{
	prop:   "C15",
	maxBuf: 200,
	opts: func(kind string) histOpts {
		o := defaultHistOpts()
		o.readAt, o.byteAt = 8, 6
		o.parseNil = 1
		o.overReset = true
		o.faults = true
		o.resetDat = 2
		o.readFrom = 8
		if kind == "BUF" {
			o.peekAt = 6
		}
		return o
	},
	classify: func(x *parserExec) ([]string, bool) {
		var cl []string
		if x.shrinkPos > 0 {
			cl = append(cl, "shrink>0")
		}
		if x.shrinkPos > 0 && x.readsAfterShrink >= 2 {
			cl = append(cl, "reads-after-shrink")
		}
		if x.readFromFull {
			cl = append(cl, "readfrom-hit-capacity")
		}
		if x.resetWithCap > 0 {
			cl = append(cl, "reset-with-cap")
		}
		return cl, (x.shrinkPos > 0 && x.readsAfterShrink >= 2) || x.readFromFull
	},
}

func TestC15(t *testing.T) { propC15.run(t, append([]string{"BUF"}, Kinds...)) }

func init() {
	replayers["C15"] = propC15.replayer()
	replayers["C02"] = propC02.replayer()
	replayers["C03"] = propC03.replayer()
	replayers["C14"] = propC14.replayer()
}

// ---------------------------------------------------------------- C15: memory of other owners

// TestC15Foreign: a parser A is given a caller slice with Reset(data), grows
// beyond it and is dropped; the caller takes its slice back and overwrites it.
// A second parser B that was fed in between must still show exactly the bytes
// it was fed (and A, while it lives, the bytes it was fed). Sizes run from a
// few bytes to beyond 64 KiB, where allocation strategies usually change.
func TestC15Foreign(t *testing.T) {
	st := statsFor("C15")
	rapid.Check(t, func(t *rapid.T) {
		kinds := []string{"BUF", "HP", "BHP", "DHP", "BUP"}
		mk := func(label string) (*parserExec, bool) {
			cfg := PCfg{Kind: rapid.SampledFrom(kinds).Draw(t, label+"Kind"),
				BufferSize: rapid.SampledFrom([]int{0, 1 << 20, 300_000, 150_000, 70_000}).Draw(t, label+"Buf"), BlockSize: 4096}
			switch cfg.Kind {
			case "DHP":
				cfg.HashBits1, cfg.HashBits2 = 10, 10
			case "BUF":
			default:
				cfg.HashBits = 10
			}
			x, err := newParserExec(cfg)
			if err != nil {
				return nil, false
			}
			x.trackSlices = true
			return x, true
		}
		a, ok1 := mk("a")
		b, ok2 := mk("b")
		if !ok1 || !ok2 {
			return
		}
		stream := largeStream(t, 300_000)
		pos := 0
		take := func(n int) []byte {
			if pos+n > len(stream) {
				pos = 0
			}
			pos += n
			return stream[pos-n : pos]
		}
		size := func(label string) int {
			if rapid.Bool().Draw(t, label+"Big") {
				return 100_000 - rapid.IntRange(0, 70_000).Draw(t, label+"BelowMax")
			}
			return rapid.IntRange(1, 5000).Draw(t, label)
		}
		c := func() any {
			return map[string]any{"a": a.Case().Cfg, "b": b.Case().Cfg, "opsA": len(a.log), "opsB": len(b.log)}
		}
		beginCase("C15", "foreign", c)
		defer endCase()
		a.step(POp{Op: "reset", Data: take(minInt(size("aReset"), a.cc.BufferSize)), Cap: rapid.SampledFrom([]int{7, 8, 64, 40_000}).Draw(t, "aCap")})
		// interleave: A grows, B grows
		for k := rapid.IntRange(1, 4).Draw(t, "rounds"); k > 0; k-- {
			if rapid.Bool().Draw(t, "aWrites") {
				a.step(POp{Op: "write", Data: take(size("aWrite"))})
				if rapid.Bool().Draw(t, "aParses") {
					a.step(POp{Op: "parse"})
				}
			}
			b.step(POp{Op: "write", Data: take(size("bWrite"))})
			if rapid.Bool().Draw(t, "bParses") {
				b.step(POp{Op: "parse"})
			}
		}
		a.step(POp{Op: "readat", Off: int64(a.off), Len: a.buffered()})
		a.release() // the caller drops A and reuses its slice
		b.step(POp{Op: "readat", Off: int64(b.off), Len: b.buffered()})
		b.step(POp{Op: "write", Data: take(size("bWrite2"))})
		b.step(POp{Op: "readat", Off: int64(b.off), Len: b.buffered()})
		for k := b.unparsed()/4096 + 2; k > 0 && b.unparsed() > 0 && !b.dead; k-- {
			b.step(POp{Op: "parse"})
		}
		endCase()
		for _, x := range []*parserExec{a, b} {
			for _, prop := range []string{"C15", "C01"} {
				if msg, bad := x.first(prop); bad {
					recordFailure("C15", "foreign", map[string]any{"a": a.Case(), "b": b.Case()}, msg)
					t.Fatalf("C15 violated (a parser shows bytes it was never fed after another parser's slice was reused): %s", msg)
				}
			}
		}
		cl := []string{"foreign"}
		if len(b.fed) > 65536 {
			cl = append(cl, "foreign:b>64KiB")
		}
		sum := c()
		st.eval(cl, len(a.fed) > 65536 || len(b.fed) > 65536, hashJSON(sum), "foreign", func() any { return sum })
	})
}
