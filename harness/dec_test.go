package harness

import (
	"encoding/json"
	"fmt"
	"os"
	"testing"

	"pgregory.net/rapid"
)

// decProp is the common body of the properties decided on decoder histories.
type decProp struct {
	prop     string
	vehicles []decOpts
	classify func(x *decExec) (classes []string, nontrivial bool)
}

func (dp decProp) run(t *testing.T) {
	st := statsFor(dp.prop)
	for _, o := range dp.vehicles {
		o := o
		t.Run(o.vehicle, func(t *testing.T) {
			rapid.Check(t, dp.body(o, st))
		})
	}
}

func (dp decProp) body(o decOpts, st *propStats) func(t *rapid.T) {
	return func(t *rapid.T) {
		c := DecCase{Vehicle: o.vehicle, Cfg: genDCfg(t)}
		if o.vehicle == "dec" {
			c.Writer = genWriterScript(t, o.faults)
			c.WriterFlush = o.faults && rapid.IntRange(0, 3).Draw(t, "writerFlush") == 0
		} else if o.preCap != nil {
			c.PreCap = rapid.SampledFrom(o.preCap).Draw(t, "preCap")
		} else if rapid.IntRange(0, 7).Draw(t, "withArray") == 0 {
			// the caller brings an array of its own
			cc := c.Cfg.completed()
			c.PreCap = int64(genSize(t, "preCapSmall", minInt(3*cc.BufferSize+64, 1<<17), 1, cc.BufferSize-1, cc.BufferSize, cc.BufferSize+1, cc.WindowSize))
			if c.PreCap == 0 || rapid.IntRange(0, 5).Draw(t, "emptyNotNil") == 0 {
				c.PreCap = -1
			}
		}
		if o.vehicle == "dbuf" && !c.Direct && rapid.IntRange(0, 9).Draw(t, "presetDict") == 0 {
			cc := c.Cfg.completed()
			n := rapid.IntRange(1, maxInt(minInt(minInt(cc.WindowSize, cc.BufferSize-1), 40), 1)).Draw(t, "dictLen")
			c.Dict = genLits(t, "dict", n)
		}
		if o.vehicle == "dbuf" && len(c.Dict) == 0 && o.hostile > 0 && rapid.IntRange(0, 9).Draw(t, "direct") == 0 {
			// no Init: the configuration fields are set by hand
			c.Direct = true
			c.Cfg.WindowSize = rapid.SampledFrom([]int{0, 0, 1, 2, 8}).Draw(t, "directWindow")
			c.Cfg.BufferSize = c.Cfg.WindowSize + rapid.IntRange(1, 64).Draw(t, "directBufExtra")
		}
		x, err := newDecExec(c)
		if err != nil {
			st.class("config-rejected")
			return
		}
		beginCase(dp.prop, o.vehicle, func() any { return x.Case() })
		defer endCase() // also when rapid abandons the case half-way (fuzzing: input used up)
		genDecHistory(t, x, o)
		x.finish()
		endCase()
		dp.judge(t, st, o.vehicle, x)
	}
}

func (dp decProp) judge(t *rapid.T, st *propStats, sub string, x *decExec) {
	if msg, bad := x.first(dp.prop); bad {
		recordFailure(dp.prop, sub, x.Case(), msg)
		t.Fatalf("%s violated (%s): %s", dp.prop, sub, msg)
	}
	for i := 0; i < x.excludedD14; i++ {
		st.exclude("D14:item>BufferSize-WindowSize")
	}
	if x.dead && !x.stuckEnd {
		why := sub
		if len(x.findings) > 0 {
			why += ":" + x.findings[0].prop
			if os.Getenv("VERIF_DEBUG_ABORT") != "" {
				fmt.Fprintf(os.Stderr, "ABORT %s %s %+v direct=%v precap=%d\n", x.findings[0].prop, x.findings[0].msg, x.c.Cfg, x.c.Direct, x.c.PreCap)
			}
		}
		st.abort(why)
		return
	}
	cl, nt := dp.classify(x)
	cl = append(cl, "vehicle:"+sub)
	if x.stuckEnd {
		cl = append(cl, "ended-at-a-writer-that-fails-for-good")
	}
	c := x.Case()
	st.eval(cl, nt, hashJSON(c), sub, func() any { return c })
}

func (dp decProp) replayer() replayFn {
	return func(raw json.RawMessage) (string, bool, error) {
		var c DecCase
		if err := json.Unmarshal(raw, &c); err != nil {
			return "", false, err
		}
		x, err := replayDecCase(c)
		if err != nil {
			return "", false, err
		}
		msg, bad := x.first(dp.prop)
		return msg, bad, nil
	}
}

func replayDecCase(c DecCase) (*decExec, error) {
	x, err := newDecExec(c)
	if err != nil {
		return x, err
	}
	for _, op := range c.Ops {
		x.step(op)
	}
	x.finish()
	return x, nil
}

func decClasses(x *decExec) []string {
	var cl []string
	add := func(b bool, s string) {
		if b {
			cl = append(cl, s)
		}
	}
	add(x.shrunk, "shrunk")
	add(x.shrunkMidRead, "shrunk-with-read-cursor-inside")
	add(x.matchAtWindow, "match-at-window-distance-after-shrink")
	add(x.overlapMatches > 0, "overlapping-match")
	add(x.rejected > 0, "operand-rejected")
	add(x.hostileAfterValid, "rejected-after-valid-seq")
	add(x.hostileInShrunk, "rejected-in-shrunk-buffer")
	add(x.retryLoopRan > 0, "retry-loop-ran")
	add(x.shrinkDuringBlock > 0, "shrink-during-WriteBlock")
	add(x.oversizeRefused > 0, "oversize-item-refused")
	add(x.faultsTotal > 0, "writer-fault")
	add(x.faultInBlock > 0, "fault-inside-WriteBlock")
	add(x.shortFaultInBlock > 0, "short-write-inside-WriteBlock")
	add(x.retries > 0, "caller-retried")
	add(x.nSeqs > 0, "sequences-written")
	add(len(x.all) > x.cc.BufferSize, "stream>BufferSize")
	return cl
}

// ---------------------------------------------------------------- C04

var propC04 = decProp{
	prop: "C04",
	vehicles: []decOpts{
		{vehicle: "dbuf", maxOps: 40, faults: true, bigSizes: 25, reset: 1},
		{vehicle: "dec", maxOps: 40, bigSizes: 25, reset: 1, noOversize: true},
	},
	classify: func(x *decExec) ([]string, bool) {
		if x.buf != nil {
			return decClasses(x), x.shrunkMidRead && x.matchAtWindow
		}
		return decClasses(x), x.retryLoopRan > 0 && x.nSeqs > 0 && len(x.all) > x.cc.BufferSize
	},
}

func TestC04(t *testing.T) { propC04.run(t) }

// ---------------------------------------------------------------- C05

var propC05 = decProp{
	prop: "C05",
	vehicles: []decOpts{
		{vehicle: "dbuf", maxOps: 30, hostile: 35, faults: true, bigSizes: 25, reset: 1, readBias: 2},
		{vehicle: "dec", maxOps: 30, hostile: 35, bigSizes: 25, reset: 1},
	},
	classify: func(x *decExec) ([]string, bool) {
		if x.buf != nil {
			return decClasses(x), x.hostileInShrunk
		}
		return decClasses(x), x.hostileAfterValid && len(x.all) > x.cc.BufferSize
	},
}

func TestC05(t *testing.T) { propC05.run(t) }

// ---------------------------------------------------------------- C06

var propC06 = decProp{
	prop: "C06",
	vehicles: []decOpts{
		{vehicle: "dec", maxOps: 30, hostile: 20, faults: true, bigSizes: 60, reset: 1},
		{vehicle: "dbuf", maxOps: 30, hostile: 20, faults: true, bigSizes: 60, reset: 1},
	},
	classify: func(x *decExec) ([]string, bool) {
		if x.buf != nil {
			return decClasses(x), x.shrunk
		}
		return decClasses(x), x.retryLoopRan > 0
	},
}

func TestC06(t *testing.T) { propC06.run(t) }

// ---------------------------------------------------------------- C17

var propC17 = decProp{
	prop: "C17",
	vehicles: []decOpts{
		{vehicle: "dbuf", maxOps: 40, hostile: 15, faults: true, bigSizes: 30, reset: 1, readBias: 4},
		{vehicle: "dec", maxOps: 30, hostile: 15, faults: true, bigSizes: 30, reset: 1},
	},
	classify: func(x *decExec) ([]string, bool) {
		if x.buf != nil {
			return decClasses(x), x.shrinkDuringBlock > 0
		}
		return decClasses(x), x.retryLoopRan > 0 && x.nBlocks > 0
	},
}

func TestC17(t *testing.T) { propC17.run(t) }

// TestC17HugeArray: the caller's array has 2^32 bytes and more (address space
// only, see hugeArray), which the buffer adopts as its size: the geometry is
// then beyond what a configuration can ask for.
func TestC17HugeArray(t *testing.T) {
	pp := propC17
	pp.vehicles = []decOpts{{vehicle: "dbuf", maxOps: 30, hostile: 15, faults: true, bigSizes: 30, reset: 4, readBias: 4,
		preCap: []int64{1 << 32, 1<<32 - 1, 1<<32 + 1, 1<<32 + 4096, 1 << 33}}}
	pp.run(t)
}

// ---------------------------------------------------------------- C18

var propC18 = decProp{
	prop: "C18",
	vehicles: []decOpts{
		{vehicle: "dec", maxOps: 30, faults: true, bigSizes: 30, reset: 0},
		{vehicle: "dbuf", maxOps: 30, faults: true, bigSizes: 30, reset: 0, readBias: 3},
	},
	classify: func(x *decExec) ([]string, bool) {
		if x.buf != nil {
			return decClasses(x), x.faultsTotal > 0 && x.shrunk
		}
		return decClasses(x), x.shortFaultInBlock > 0
	},
}

func TestC18(t *testing.T) { propC18.run(t) }

func init() {
	replayers["C04"] = propC04.replayer()
	replayers["C05"] = propC05.replayer()
	replayers["C06"] = propC06.replayer()
	replayers["C17"] = propC17.replayer()
	replayers["C18"] = propC18.replayer()
}

// ---------------------------------------------------------------- C07 (synthetic side)

// Blocks generated directly to be well-formed for W (so the check does not
// depend on what today's parsers happen to emit), items up to and beyond
// BufferSize-WindowSize, healthy writer. Items larger than
// BufferSize-WindowSize are the known finding D14: counted and excluded from
// the acceptance assertion, still executed (they must end with an error, not a
// spin).
var propC07 = decProp{
	prop: "C07",
	vehicles: []decOpts{
		{vehicle: "dec", maxOps: 30, bigSizes: 50, reset: 0},
		{vehicle: "dbuf", maxOps: 30, bigSizes: 40, reset: 0, readBias: 3},
	},
	classify: func(x *decExec) ([]string, bool) {
		if x.buf != nil {
			return decClasses(x), x.shrunk && x.nSeqs > 0
		}
		return decClasses(x), x.retryLoopRan > 0 && x.nSeqs > 0
	},
}

func TestC07(t *testing.T) { propC07.run(t) }

// TestC18Enum: fault enumeration by construction. For a generated short stream
// the fault-free run tells how many writer calls there are and how many bytes
// each offers; then every single-fault placement over the first 24 calls x
// every accepted count 0..len-1 (all of them up to 8, a spread beyond that) x
// {short write, full write with error} is executed.
func TestC18Enum(t *testing.T) {
	st := statsFor("C18")
	rapid.Check(t, func(t *rapid.T) {
		c := DecCase{Vehicle: "dec", Cfg: genDCfg(t), WriterFlush: rapid.Bool().Draw(t, "writerFlush")}
		if c.Cfg.WindowSize > 16 {
			c.Cfg.WindowSize = 1 + c.Cfg.WindowSize%16
			if c.Cfg.BufferSize != 0 && c.Cfg.BufferSize <= c.Cfg.WindowSize {
				c.Cfg.BufferSize = c.Cfg.WindowSize + 1
			}
			if c.Cfg.BufferSize > c.Cfg.WindowSize+24 {
				c.Cfg.BufferSize = c.Cfg.WindowSize + 24
			}
		}
		x0, err := newDecExec(c)
		if err != nil {
			return
		}
		genDecHistory(t, x0, decOpts{vehicle: "dec", maxOps: 10, bigSizes: 40, noOversize: true})
		x0.finish()
		if msg, bad := x0.first("C18"); bad {
			recordFailure("C18", "enum", x0.Case(), msg)
			t.Fatalf("C18 violated (fault-free run): %s", msg)
		}
		if x0.dead {
			st.abort("enum-base")
			return
		}
		base := x0.Case()
		lens := append([]int(nil), x0.callLens...)
		if len(lens) > 24 {
			lens = lens[:24]
		}
		for i, L := range lens {
			var accepts []int
			if L <= 8 {
				for j := 0; j < L; j++ {
					accepts = append(accepts, j)
				}
			} else {
				accepts = []int{0, 1, 2, L / 2, L - 2, L - 1}
			}
			accepts = append(accepts, -1) // everything accepted, error returned
			for _, j := range accepts {
				cc := base
				cc.Writer = make([]WEvent, i+1)
				for k := 0; k < i; k++ {
					cc.Writer[k] = WEvent{Accept: -1}
				}
				cc.Writer[i] = WEvent{Accept: j, Err: true}
				x, err := replayDecCase(cc)
				if err != nil {
					t.Fatalf("replay: %v", err)
				}
				if msg, bad := x.first("C18"); bad {
					recordFailure("C18", "enum", x.Case(), msg)
					t.Fatalf("C18 violated (single fault at writer call %d, %d of %d bytes accepted): %s", i, j, L, msg)
				}
				if x.dead {
					st.abort("enum")
					continue
				}
				cl := append(decClasses(x), "enumerated-single-fault")
				st.eval(cl, x.shortFaultInBlock > 0, hashJSON(cc), "enum", func() any { return cc })
			}
		}
	})
}
