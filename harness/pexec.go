package harness

import (
	"bytes"
	"errors"
	"fmt"
	"io"

	"github.com/ulikunitz/lz"
)

// POp is one concrete operation of a parser history.
type POp struct {
	Op    string `json:"op"`
	Data  Bytes  `json:"data,omitempty"`
	Nil   bool   `json:"nil,omitempty"`   // reset: Reset(nil)
	Cap   int    `json:"cap,omitempty"`   // reset: spare capacity of the slice handed over
	Fill  byte   `json:"fill,omitempty"`  // reset: content of the spare capacity (not part of the data)
	Empty bool   `json:"empty,omitempty"` // write: when Data is empty, hand over an empty non-nil slice instead of nil
	Flags int    `json:"flags,omitempty"` // parse
	// Reuse (reset): the caller refills the array it handed to the previous
	// Reset(data) with the new data and hands it over again (if it is large
	// enough; else a new slice as always).
	Reuse bool `json:"reuse,omitempty"`
	// Cfg (reinit, bare ParserBuffer only): Init is called again on the used
	// value with this configuration, as on a buffer taken from a pool.
	Cfg *PCfg         `json:"cfg,omitempty"`
	Off int64         `json:"off,omitempty"` // readat/byteat: absolute offset
	Len int           `json:"len,omitempty"` // readat: len(p)
	R   *ReaderScript `json:"r,omitempty"`   // readfrom
}

// ParserCase is a parser history as plain data: configuration plus concrete
// operations. It is what replay files hold.
type ParserCase struct {
	Cfg PCfg  `json:"cfg"`
	Ops []POp `json:"ops"`
}

// finding is one oracle verdict.
type finding struct {
	prop string
	msg  string
}

// blockRec describes one parsed block for the per-property oracles that need
// more than the generic checks (C11, C12, C19 run clause, C13 comparisons).
type blockRec struct {
	W      int // absolute stream position of the block start
	N      int
	Off    int // absolute position of the first byte still buffered
	End    int // absolute end of buffered data at the time of the call
	Flags  int
	Seqs   []lz.Seq
	Lits   []byte
	Err    error
	Builds int // number of times the buffer content changed before this block (fills+shrinks+resets)
	// SaEnd: for GSAP, the absolute end of the data on which the suffix
	// array serving this block was built (model of gsap.sort: rebuilt when a
	// block reaches beyond it, dropped by Shrink > 0 and Reset).
	SaEnd int
	// Fed is the stream since the last Reset at the time of the call (the
	// positions above refer to it).
	Fed []byte `json:"-"`
}

// parserExec executes a parser history against the implementation and the
// stream model. The model derives the absolute positions (off, w) from the
// returned values (delta of Shrink, n of Parse), never from the
// implementation's fields.
type parserExec struct {
	cfg PCfg // as given
	cc  PCfg // defaults-completed; follows p.BufferConfig() for the geometry
	p   lz.Parser

	fed []byte // bytes accepted since the last successful Reset
	off int    // sum of Shrink results since Reset
	w   int    // sum of Parse results since Reset

	blk lz.Block
	// The caller alternates between two blocks: the block of the previous
	// Parse stays in its hands (held) while the parser goes on, and must not
	// change (heldSeqs/heldLits: its content when it was returned).
	blk2     lz.Block
	useBlk2  bool
	held     *lz.Block
	heldSeqs []lz.Seq
	heldLits []byte
	log      []POp

	findings []finding
	dead     bool // the model cannot follow the implementation any more

	// observations for classification
	nBlocks, nMatches, nSeqBlocks int
	shrinkPos                     int // Shrink calls that returned > 0
	matchAfterShrink              bool
	fills                         int // data added after at least one Parse
	parsedSinceAdd                bool
	ntlWithSeq, ntlCut            int
	resetWithCap, resets          int
	parseNils                     int
	matchIntoSkipped              bool
	skippedRanges                 [][2]int
	nilAcrossShrink               bool
	offsetEqWindow, minLenMatches int
	streamBeyondWindow            bool
	longMatchEndsEarly            bool
	backwardChecked               int
	readFromFull                  bool
	readsAfterShrink              int
	contentChanges                int

	excludedD18, excludedD22                     int
	prevReset                                    []byte // the array handed to the last Reset(data)
	c11Blocks, c11MLM, c11Mixed, c11AfterRebuild int
	c12Matches, c12AfterRebuild, c12AfterCut     int
	runBlocks, runBlocksAfterShrink              int

	saLen int // GSAP: buffer-relative extent of the current suffix array (model)
	// trackSlices: the slices handed over with Reset(data) are remembered;
	// release overwrites them when the caller drops the parser.
	trackSlices bool
	given       [][]byte
	capFillXor  byte // XORed into the fill byte of Reset slices' spare capacity

	keepBlocks bool
	blocks     []blockRec
	results    []any // everything the history returned (for C13 comparisons)
	keepRes    bool
}

func newParserExec(cfg PCfg) (*parserExec, error) {
	x := &parserExec{cfg: cfg, cc: cfg.Completed()}
	var p lz.Parser
	var err error
	func() {
		defer func() {
			if r := recover(); r != nil {
				err = fmt.Errorf("NewParser panicked: %v", r)
				x.report("C16", "NewParser panicked: %v", r)
			}
		}()
		if cfg.Kind == "BUF" {
			p, err = newBufParser(cfg)
			return
		}
		p, err = cfg.LZ().NewParser()
	}()
	if err != nil {
		return x, err
	}
	x.p = p
	// Geometry of the model = what the parser reports (lesson 1 of the
	// design); a disagreement with our own completion is C20's business.
	bc := p.BufferConfig()
	if bc.BufferSize != x.cc.BufferSize || bc.ShrinkSize != x.cc.ShrinkSize ||
		bc.WindowSize != x.cc.WindowSize || bc.BlockSize != x.cc.BlockSize {
		x.report("C20", "BufferConfig() = %+v, harness completion gives %+v", bc, x.cc)
		x.cc.BufferSize, x.cc.ShrinkSize = bc.BufferSize, bc.ShrinkSize
		x.cc.WindowSize, x.cc.BlockSize = bc.WindowSize, bc.BlockSize
	}
	return x, nil
}

func (x *parserExec) report(prop, format string, a ...any) {
	x.findings = append(x.findings, finding{prop, fmt.Sprintf(format, a...)})
}

// fatal marks that the model lost track; props name the properties the
// observation violates (possibly none: then it only stops the case).
func (x *parserExec) fatal(props []string, format string, a ...any) {
	for _, p := range props {
		x.report(p, format, a...)
	}
	x.dead = true
}

// first returns the first finding for prop.
func (x *parserExec) first(prop string) (string, bool) {
	for _, f := range x.findings {
		if f.prop == prop {
			return f.msg, true
		}
	}
	return "", false
}

func (x *parserExec) buffered() int { return len(x.fed) - x.off }
func (x *parserExec) unparsed() int { return len(x.fed) - x.w }

func (x *parserExec) Case() ParserCase {
	return ParserCase{Cfg: x.cfg, Ops: append([]POp(nil), x.log...)}
}

func errName(err error) string {
	switch {
	case err == nil:
		return "nil"
	case err == lz.ErrEmptyBuffer:
		return "ErrEmptyBuffer"
	case err == lz.ErrFullBuffer:
		return "ErrFullBuffer"
	case err == lz.ErrOutOfBuffer:
		return "ErrOutOfBuffer"
	case err == lz.ErrEndOfBuffer:
		return "ErrEndOfBuffer"
	case err == io.EOF:
		return "io.EOF"
	case err == errScript:
		return "errScript"
	case err == io.ErrUnexpectedEOF:
		return "io.ErrUnexpectedEOF(reader's)"
	case err == io.ErrClosedPipe:
		return "io.ErrClosedPipe(reader's)"
	case err == errSpin:
		return "errSpin"
	}
	return "other(" + err.Error() + ")"
}

// call runs f under recover. A panic is a violation of the properties listed.
func (x *parserExec) call(what string, props []string, f func()) (panicked bool) {
	defer func() {
		if r := recover(); r != nil {
			panicked = true
			x.fatal(props, "%s panicked: %v", what, r)
		}
	}()
	f()
	return false
}

// step executes one operation and runs all oracles on it.
func (x *parserExec) step(op POp) {
	if x.dead {
		return
	}
	x.log = append(x.log, op)
	switch op.Op {
	case "write":
		x.doWrite(op)
	case "readfrom":
		x.doReadFrom(op)
	case "parse":
		x.doParse(op)
	case "parsenil":
		x.doParseNil(op)
	case "reinit":
		x.doReinit(op)
	case "shrink":
		x.doShrink()
	case "reset":
		x.doReset(op)
	case "readat":
		x.doReadAt(op)
	case "byteat":
		x.doByteAt(op)
	case "peekat":
		x.doPeekAt(op)
	default:
		panic("unknown op " + op.Op)
	}
	x.checkHeld(op.Op)
}

// release: the caller drops the parser; the slices it handed over with
// Reset(data) are its own again and get overwritten.
func (x *parserExec) release() {
	for _, g := range x.given {
		for i := range g {
			g[i] = 0xdd
		}
	}
	x.given = nil
	x.p = nil
}

// checkHeld: a block handed back by an earlier Parse belongs to the caller.
func (x *parserExec) checkHeld(after string) {
	if x.held == nil || x.dead {
		return
	}
	if !seqsEqual(x.held.Sequences, x.heldSeqs) || !bytesEqual(x.held.Literals, x.heldLits) {
		x.report("C01", "a block returned by an earlier Parse changed while the parser went on (after %s): %d sequences / %d literal bytes, they differ from what Parse returned (the block's slices are not the caller's own?)",
			after, len(x.held.Sequences), len(x.held.Literals))
		x.held = nil
	}
}

func (x *parserExec) added(n int) {
	if n > 0 {
		x.contentChanges++
		if x.parsedSinceAdd {
			x.fills++
			x.parsedSinceAdd = false
		}
	}
}

func (x *parserExec) doWrite(op POp) {
	// The caller's slice has spare capacity in three of four cases (a piece
	// of a larger I/O buffer): op.Cap, or 0/7/8/64 chosen by a hash of the length of the data.
	extra := op.Cap
	if extra == 0 {
		extra = []int{7, 0, 8, 64}[(uint32(len(op.Data))*2654435761>>13)%4]
	}
	whole := make([]byte, len(op.Data)+extra)
	copy(whole, op.Data)
	for i := len(op.Data); i < len(whole); i++ {
		whole[i] = 0x5c ^ x.capFillXor
	}
	p := whole[:len(op.Data)]
	if len(op.Data) == 0 {
		p = nil
		if op.Empty {
			p = []byte{}
		}
	}
	var n int
	var err error
	if x.call("Write", []string{"C15", "C16"}, func() { n, err = x.p.Write(p) }) {
		return
	}
	if x.keepRes {
		x.results = append(x.results, []any{"write", n, errName(err)})
	}
	room := x.cc.BufferSize - x.buffered()
	wantN := minInt(len(op.Data), room)
	var wantErr error
	if wantN < len(op.Data) {
		wantErr = lz.ErrFullBuffer
	}
	if !bytesEqual(p, op.Data) {
		x.report("C15", "Write modified the caller's slice")
	}
	// The slice is the caller's again: whatever is written into it now must
	// not show up in the parser (Write copies).
	for i := range whole {
		whole[i] = 0xee
	}
	if n != wantN || err != wantErr {
		x.report("C15", "Write(%d bytes) with %d of %d bytes buffered = (%d, %s); want (%d, %s)",
			len(op.Data), x.buffered(), x.cc.BufferSize, n, errName(err), wantN, errName(wantErr))
	}
	if err != nil && err != lz.ErrFullBuffer {
		x.report("C16", "Write returned undocumented error %s", errName(err))
	}
	if n < 0 || n > len(op.Data) {
		x.fatal(nil, "Write n out of range")
		return
	}
	x.fed = append(x.fed, op.Data[:n]...)
	x.added(n)
	if x.buffered() > x.cc.BufferSize {
		x.report("C15", "buffer holds %d bytes > BufferSize %d after Write", x.buffered(), x.cc.BufferSize)
	}
}

// doReadFromMulti: ReadFrom on an io.MultiReader of standard readers. What the
// reader handed out is what it does not have any more afterwards.
func (x *parserExec) doReadFromMulti(op POp) {
	data := []byte(op.R.Data)
	rd := multiReader(data, op.R.Multi)
	if len(op.R.Multi) == 1 && op.R.Multi[0].Kind == "buffer" {
		// a *bytes.Buffer itself (it has Len() and answers an empty slice at
		// its end with (0, nil))
		rd = bytes.NewBuffer(cloneBytes(data))
	}
	var n int64
	var err error
	before := x.buffered()
	if x.call("ReadFrom", []string{"C15", "C16"}, func() { n, err = x.p.ReadFrom(rd) }) {
		return
	}
	if x.keepRes {
		x.results = append(x.results, []any{"readfrom", n, errName(err)})
	}
	rest, rerr := io.ReadAll(rd)
	handed := len(data) - len(rest)
	if rerr != nil || handed < 0 || !bytesEqual(rest, data[maxInt(handed, 0):]) {
		x.fatal([]string{"C15"}, "after ReadFrom the io.MultiReader still has %d bytes (%v) that are not the rest of its %d bytes: bytes were taken from the reader and dropped", len(rest), rerr, len(data))
		return
	}
	if n != int64(handed) {
		x.report("C15", "ReadFrom returned n=%d but the io.MultiReader handed out %d of its %d bytes", n, handed, len(data))
	}
	x.fed = append(x.fed, data[:handed]...)
	x.added(handed)
	if x.buffered() > x.cc.BufferSize {
		x.report("C15", "buffer holds %d bytes > BufferSize %d after ReadFrom (had %d, reader handed out %d)",
			x.buffered(), x.cc.BufferSize, before, handed)
	}
	full := x.buffered() >= x.cc.BufferSize
	switch {
	case err == lz.ErrFullBuffer && full:
		x.readFromFull = true
	case err == io.EOF && handed == len(data):
	case err == io.EOF:
		x.report("C15", "ReadFrom returned io.EOF with %d of %d bytes buffered although the io.MultiReader had %d bytes left", x.buffered(), x.cc.BufferSize, len(rest))
	default:
		x.report("C15", "ReadFrom on an io.MultiReader of standard readers = (%d, %s) with %d of %d bytes buffered and %d bytes left in the reader",
			n, errName(err), x.buffered(), x.cc.BufferSize, len(rest))
	}
}

func (x *parserExec) doReadFrom(op POp) {
	if len(op.R.Multi) > 0 {
		x.doReadFromMulti(op)
		return
	}
	r := newScriptReader(*op.R)
	var n int64
	var err error
	before := x.buffered()
	if x.call("ReadFrom", []string{"C15", "C16"}, func() { n, err = x.p.ReadFrom(r) }) {
		return
	}
	if x.keepRes {
		x.results = append(x.results, []any{"readfrom", n, errName(err)})
	}
	if r.spun {
		x.fatal([]string{"C16"}, "ReadFrom keeps calling the reader without progress")
		return
	}
	handed := r.pos
	if n != int64(handed) {
		x.report("C15", "ReadFrom returned n=%d but the reader handed out %d bytes", n, handed)
	}
	x.fed = append(x.fed, op.R.Data[:handed]...)
	x.added(handed)
	if x.buffered() > x.cc.BufferSize {
		x.report("C15", "buffer holds %d bytes > BufferSize %d after ReadFrom (had %d, reader handed out %d)",
			x.buffered(), x.cc.BufferSize, before, handed)
	}
	// error prediction: the reader's last error if it returned one (or
	// ErrFullBuffer without a reader call when the buffer was full at
	// entry), else ErrFullBuffer because only a full buffer stops the loop.
	var wantErr error
	if r.calls > 0 && r.lastErr != nil {
		wantErr = r.lastErr
	} else {
		wantErr = lz.ErrFullBuffer
		if x.buffered() < x.cc.BufferSize {
			x.report("C15", "ReadFrom stopped with %d of %d bytes buffered although the reader reported no error",
				x.buffered(), x.cc.BufferSize)
		} else {
			x.readFromFull = true
		}
	}
	if err != wantErr {
		x.report("C15", "ReadFrom error = %s; want %s (buffered %d of %d)", errName(err), errName(wantErr),
			x.buffered(), x.cc.BufferSize)
	}
	if err != lz.ErrFullBuffer && err != io.EOF && !isReaderFault(err) {
		x.report("C16", "ReadFrom returned undocumented error %s", errName(err))
	}
}

// doReinit: ParserBuffer.Init on a used value. An accepted configuration makes
// it an empty buffer of exactly that (defaults-completed) geometry, whatever
// array it still holds; a refused one leaves it as it was.
func (x *parserExec) doReinit(op POp) {
	b, ok := x.p.(*bufParser)
	if !ok || op.Cfg == nil {
		return
	}
	var err error
	if x.call("Init", []string{"C15", "C16"}, func() {
		err = b.Init(lz.BufConfig{ShrinkSize: op.Cfg.ShrinkSize, BufferSize: op.Cfg.BufferSize,
			WindowSize: op.Cfg.WindowSize, BlockSize: op.Cfg.BlockSize})
	}) {
		return
	}
	if err != nil {
		return
	}
	want := op.Cfg.Completed()
	bc := b.BufferConfig()
	if bc.BufferSize != want.BufferSize || bc.ShrinkSize != want.ShrinkSize || bc.WindowSize != want.WindowSize || bc.BlockSize != want.BlockSize {
		for _, pr := range []string{"C20", "C15"} {
			x.report(pr, "after Init(%+v) on a used buffer BufferConfig() = %+v; the defaults-completed configuration is {ShrinkSize:%d BufferSize:%d WindowSize:%d BlockSize:%d}",
				*op.Cfg, bc, want.ShrinkSize, want.BufferSize, want.WindowSize, want.BlockSize)
		}
	}
	x.cfg.ShrinkSize, x.cfg.BufferSize, x.cfg.WindowSize, x.cfg.BlockSize = op.Cfg.ShrinkSize, op.Cfg.BufferSize, op.Cfg.WindowSize, op.Cfg.BlockSize
	x.cc.ShrinkSize, x.cc.BufferSize, x.cc.WindowSize, x.cc.BlockSize = want.ShrinkSize, want.BufferSize, want.WindowSize, want.BlockSize
	x.fed = x.fed[:0:0]
	x.off, x.w = 0, 0
	x.saLen = 0
	x.resets++
	x.contentChanges++
	x.parsedSinceAdd = false
	x.skippedRanges = nil
}

func (x *parserExec) doShrink() {
	var d int
	if x.call("Shrink", []string{"C15", "C16"}, func() { d = x.p.Shrink() }) {
		return
	}
	if x.keepRes {
		x.results = append(x.results, []any{"shrink", d})
	}
	want := maxInt(0, (x.w-x.off)-x.cc.ShrinkSize)
	if d != want {
		x.report("C15", "Shrink() = %d; want %d (parsed-and-buffered %d, ShrinkSize %d)",
			d, want, x.w-x.off, x.cc.ShrinkSize)
	}
	if d < 0 || d > x.w-x.off {
		x.fatal(nil, "Shrink result out of range")
		return
	}
	x.off += d
	if d > 0 {
		x.saLen = 0
		x.shrinkPos++
		x.contentChanges++
		if len(x.skippedRanges) > 0 {
			x.nilAcrossShrink = true
		}
	}
}

func (x *parserExec) doReset(op POp) {
	var data []byte
	if !op.Nil {
		// (not for data Reset will refuse: the parser keeps its old content
		// then, which may live in that very array)
		if need := len(op.Data) + op.Cap; op.Reuse && x.prevReset != nil && cap(x.prevReset) >= need && len(op.Data) <= x.cc.BufferSize {
			data = x.prevReset[:len(op.Data):need]
		} else {
			data = make([]byte, len(op.Data), len(op.Data)+op.Cap)
		}
		copy(data, op.Data)
		x.prevReset = data[:0:cap(data)]
		// The spare capacity is not part of the data handed over; what it
		// holds must not matter (capFillXor differs between twins).
		if f := op.Fill ^ x.capFillXor; f != 0 {
			spare := data[len(data):cap(data)]
			for i := range spare {
				spare[i] = f
			}
		}
	}
	var err error
	if x.trackSlices && data != nil {
		x.given = append(x.given, data[:cap(data)])
	}
	if x.call("Reset", []string{"C15", "C16"}, func() { err = x.p.Reset(data) }) {
		return
	}
	if x.keepRes {
		x.results = append(x.results, []any{"reset", err == nil})
	}
	tooBig := len(op.Data) > x.cc.BufferSize
	if tooBig != (err != nil) {
		x.report("C15", "Reset(%d bytes) with BufferSize %d: err = %v", len(op.Data), x.cc.BufferSize, err)
		x.report("C16", "Reset(%d bytes) with BufferSize %d: err = %v", len(op.Data), x.cc.BufferSize, err)
	}
	if err != nil {
		// state must be unchanged: the following operations check that.
		return
	}
	x.fed = append(x.fed[:0:0], op.Data...)
	x.off, x.w = 0, 0
	x.saLen = 0
	x.resets++
	x.contentChanges++
	x.parsedSinceAdd = false
	x.skippedRanges = nil
	if !op.Nil && op.Cap > 0 {
		x.resetWithCap++
	}
}

func (x *parserExec) doReadAt(op POp) {
	if op.Len < 0 || op.Len > 1<<20 {
		return
	}
	p := make([]byte, op.Len)
	var n int
	var err error
	if x.call("ReadAt", []string{"C15", "C16"}, func() { n, err = x.p.ReadAt(p, op.Off) }) {
		return
	}
	if x.keepRes {
		x.results = append(x.results, []any{"readat", n, errName(err), string(p[:maxInt(0, minInt(n, len(p)))])})
	}
	i := op.Off - int64(x.off)
	if !(0 <= i && i < int64(x.buffered())) {
		if n != 0 || err != lz.ErrOutOfBuffer {
			x.report("C15", "ReadAt(len %d, off %d) with retained range [%d,%d) = (%d, %s); want (0, ErrOutOfBuffer)",
				op.Len, op.Off, x.off, len(x.fed), n, errName(err))
		}
		return
	}
	avail := x.buffered() - int(i)
	wantN := minInt(op.Len, avail)
	var wantErr error
	if wantN < op.Len {
		wantErr = lz.ErrEndOfBuffer
	}
	if n != wantN || err != wantErr {
		x.report("C15", "ReadAt(len %d, off %d) with retained range [%d,%d) = (%d, %s); want (%d, %s)",
			op.Len, op.Off, x.off, len(x.fed), n, errName(err), wantN, errName(wantErr))
		return
	}
	if !bytesEqual(p[:n], x.fed[op.Off:int(op.Off)+n]) {
		x.report("C15", "ReadAt(len %d, off %d) returned %q; the stream has %q there",
			op.Len, op.Off, p[:n], x.fed[op.Off:int(op.Off)+n])
	}
	if x.shrinkPos > 0 {
		x.readsAfterShrink++
	}
}

func (x *parserExec) doByteAt(op POp) {
	var c byte
	var err error
	if x.call("ByteAt", []string{"C15", "C16"}, func() { c, err = x.p.ByteAt(op.Off) }) {
		return
	}
	if x.keepRes {
		x.results = append(x.results, []any{"byteat", c, errName(err)})
	}
	i := op.Off - int64(x.off)
	switch {
	case 0 <= i && i < int64(x.buffered()):
		if err != nil || c != x.fed[op.Off] {
			x.report("C15", "ByteAt(%d) = (%#x, %s); want (%#x, nil)", op.Off, c, errName(err), x.fed[op.Off])
		}
	case i == int64(x.buffered()):
		if err != lz.ErrEndOfBuffer {
			x.report("C15", "ByteAt(%d) at the end of the data = (%#x, %s); want ErrEndOfBuffer", op.Off, c, errName(err))
		}
	default:
		if err != lz.ErrOutOfBuffer {
			x.report("C15", "ByteAt(%d) outside [%d,%d] = (%#x, %s); want ErrOutOfBuffer", op.Off, x.off, len(x.fed), c, errName(err))
		}
	}
	if x.shrinkPos > 0 {
		x.readsAfterShrink++
	}
}

func (x *parserExec) doParseNil(op POp) {
	var n int
	var err error
	// the flags have no meaning without a block: Parse(nil, flags) consumes
	// like Parse(nil, 0)
	if x.call("Parse(nil)", []string{"C16"}, func() { n, err = x.p.Parse(nil, op.Flags) }) {
		return
	}
	if x.keepRes {
		x.results = append(x.results, []any{"parsenil", n, errName(err)})
	}
	x.parseNils++
	un := x.unparsed()
	if un == 0 {
		if n != 0 || err != lz.ErrEmptyBuffer {
			x.report("C14", "Parse(nil) on an empty buffer = (%d, %s); want (0, ErrEmptyBuffer)", n, errName(err))
		}
		if n != 0 {
			x.dead = true
		}
		return
	}
	want := minInt(x.cc.BlockSize, un)
	if n != want || err != nil {
		x.report("C14", "Parse(nil) with %d unparsed bytes, BlockSize %d = (%d, %s); want (%d, nil)",
			un, x.cc.BlockSize, n, errName(err), want)
	}
	if err != nil && err != lz.ErrEmptyBuffer {
		x.report("C16", "Parse(nil) returned undocumented error %s", errName(err))
	}
	if n < 0 || n > un {
		x.fatal(nil, "Parse(nil) n out of range")
		return
	}
	if n > 0 {
		x.skippedRanges = append(x.skippedRanges, [2]int{x.w, x.w + n})
		x.parsedSinceAdd = true
	}
	x.w += n
}

var garbageSeq = lz.Seq{LitLen: 0xdeadbeef, MatchLen: 0xfeedface, Offset: 0x12345678, Aux: 0x9abcdef0}

func (x *parserExec) doParse(op POp) {
	// The block handed in is pre-filled with garbage.
	blk := &x.blk
	if x.useBlk2 {
		blk = &x.blk2
	}
	x.useBlk2 = !x.useBlk2
	if x.held == blk {
		x.held = nil
	}
	blk.Sequences = append(blk.Sequences[:0], garbageSeq, garbageSeq)
	blk.Literals = append(blk.Literals[:0], 0xaa, 0xbb, 0xcc)
	var n int
	var err error
	if x.call("Parse", []string{"C16"}, func() { n, err = x.p.Parse(blk, op.Flags) }) {
		return
	}
	seqs, lits := blk.Sequences, blk.Literals
	x.checkHeld("Parse")
	x.held, x.heldSeqs, x.heldLits = blk, cloneSeqs(seqs), cloneBytes(lits)
	if x.keepRes {
		x.results = append(x.results, []any{"parse", n, errName(err), cloneSeqs(seqs), string(lits)})
	}
	un := x.unparsed()
	if n0 := minInt(x.cc.BlockSize, un); n0 > 0 && (x.w-x.off)+n0 > x.saLen {
		x.saLen = x.buffered()
	}
	afterNil := len(x.skippedRanges) > 0
	// Properties that own the stream position: after a Parse(nil) a
	// mismatch is C14's finding, otherwise C01/C03's.
	pos := func(p ...string) []string {
		if afterNil {
			return append([]string{"C14"}, p...)
		}
		return p
	}
	if un == 0 {
		if err != lz.ErrEmptyBuffer || n != 0 || len(seqs) != 0 || len(lits) != 0 {
			x.report("C03", "Parse with no unparsed data = (%d, %s) with %d sequences, %d literals; want (0, ErrEmptyBuffer) and an emptied block",
				n, errName(err), len(seqs), len(lits))
			if n != 0 || err == nil {
				x.dead = true
			}
		}
		if err != nil && err != lz.ErrEmptyBuffer {
			x.report("C16", "Parse returned undocumented error %s", errName(err))
		}
		return
	}
	if err != nil {
		x.report("C03", "Parse with %d unparsed bytes returned error %s", un, errName(err))
		if err != lz.ErrEmptyBuffer {
			x.report("C16", "Parse returned undocumented error %s", errName(err))
		}
		x.dead = true
		return
	}
	if !(1 <= n && n <= x.cc.BlockSize) {
		x.report("C03", "Parse with %d unparsed bytes returned n=%d; want 1 <= n <= BlockSize=%d", un, n, x.cc.BlockSize)
	}
	if n < 0 || n > un {
		x.fatal(pos("C03"), "Parse returned n=%d with only %d unparsed bytes", n, un)
		return
	}
	x.nBlocks++
	x.parsedSinceAdd = true
	if x.keepBlocks {
		x.blocks = append(x.blocks, blockRec{W: x.w, N: n, Off: x.off, End: len(x.fed), Flags: op.Flags,
			Seqs: cloneSeqs(seqs), Lits: cloneBytes(lits), Builds: x.contentChanges, SaEnd: x.off + x.saLen,
			Fed: x.fed[:len(x.fed):len(x.fed)]})
	}

	// ---- C02: fields of every sequence against the absolute position.
	x.checkSeqFields(seqs, lits)

	// ---- C01/C03: reference expansion with the whole stream as history.
	out, eerr := ExpandBlock(x.fed[:x.w], seqs, lits, un)
	if eerr != nil {
		switch {
		case errors.Is(eerr, errRefLimit):
			x.fatal(pos("C01", "C03"), "block at %d expands to more than the %d unparsed bytes (n=%d): %v", x.w, un, n, eerr)
		default:
			x.fatal(pos("C01", "C02"), "block at %d cannot be expanded: %v", x.w, eerr)
		}
		return
	}
	if len(out) != n {
		x.report("C03", "Parse returned n=%d but the block at %d expands to %d bytes", n, x.w, len(out))
		if afterNil {
			x.report("C14", "Parse returned n=%d but the block at %d expands to %d bytes", n, x.w, len(out))
		}
	}
	if op.Flags&lz.NoTrailingLiterals == 0 && int64(n) != blk.Len() {
		x.report("C03", "without NoTrailingLiterals: n=%d != Block.Len()=%d", n, blk.Len())
	}
	m := minInt(len(out), un)
	if !bytesEqual(out[:m], x.fed[x.w:x.w+m]) {
		d := 0
		for d < m && out[d] == x.fed[x.w+d] {
			d++
		}
		msg := fmt.Sprintf("block at stream position %d (n=%d) expands to bytes that differ from the input at block offset %d: got %#x want %#x",
			x.w, n, d, out[d], x.fed[x.w+d])
		if afterNil {
			x.report("C14", "%s", msg)
		} else {
			x.report("C01", "%s", msg)
		}
		x.dead = true
		return
	}
	sumLit, sumAll := 0, 0
	for _, s := range seqs {
		sumLit += int(s.LitLen)
		sumAll += int(s.LitLen) + int(s.MatchLen)
	}
	if op.Flags&lz.NoTrailingLiterals != 0 && len(seqs) > 0 {
		if len(lits) != sumLit {
			x.report("C03", "NoTrailingLiterals: block carries %d literals, sequences claim %d", len(lits), sumLit)
		}
		if n != sumAll {
			x.report("C03", "NoTrailingLiterals: n=%d does not end at the end of the last match (%d)", n, sumAll)
		}
		x.ntlWithSeq++
		if x.w+n < minInt(len(x.fed), x.w+x.cc.BlockSize) {
			x.ntlCut++
		}
	}
	if len(seqs) > 0 {
		x.nSeqBlocks++
		x.nMatches += len(seqs)
		if x.shrinkPos > 0 {
			x.matchAfterShrink = true
		}
	}

	// ---- C19 (a) and (b): maximality.
	x.checkMaximal(seqs, n)

	// ---- match sources inside skipped bytes (C14 non-triviality).
	if afterNil {
		p := x.w
		for _, s := range seqs {
			p += int(s.LitLen)
			src := p - int(s.Offset)
			for _, r := range x.skippedRanges {
				if src < r[1] && src+int(s.MatchLen) > r[0] {
					x.matchIntoSkipped = true
				}
			}
			p += int(s.MatchLen)
		}
	}
	if len(out) != n {
		x.dead = true
		return
	}
	x.callerModifiesBlock(blk, seqs, lits, n)
	x.w += n
}

// callerModifiesBlock: the block is the caller's; it overwrites the literals
// and sequences it got (an encoder that transforms them in place). The parser
// must not notice: the bytes at the stream positions of the first and the last
// literal of the block are read back with ByteAt.
func (x *parserExec) callerModifiesBlock(blk *lz.Block, seqs []lz.Seq, lits []byte, n int) {
	if len(lits) == 0 || x.dead {
		return
	}
	first, last := -1, -1
	p, used := x.w, 0
	for _, s := range seqs {
		if s.LitLen > 0 {
			if first < 0 {
				first = p
			}
			last = p + int(s.LitLen) - 1
		}
		p += int(s.LitLen) + int(s.MatchLen)
		used += int(s.LitLen)
	}
	if used < len(lits) && p < x.w+n {
		if first < 0 {
			first = p
		}
		last = x.w + n - 1
	}
	for i := range lits {
		lits[i] ^= 0x55
	}
	for i := range seqs {
		seqs[i] = lz.Seq{LitLen: 0xdddddddd, MatchLen: 0xdddddddd, Offset: 0xdddddddd, Aux: 0xdddddddd}
	}
	x.heldSeqs, x.heldLits = cloneSeqs(seqs), cloneBytes(lits)
	for _, q := range []int{first, last} {
		if q < x.off || q >= len(x.fed) {
			continue
		}
		var c byte
		var err error
		if x.call("ByteAt", []string{"C15", "C16"}, func() { c, err = x.p.ByteAt(int64(q)) }) {
			return
		}
		if err != nil || c != x.fed[q] {
			x.fatal([]string{"C01", "C15"}, "after the caller overwrote the literals of the block it got for [%d,%d), ByteAt(%d) = (%#x, %s); the stream has %#x there: the block's literals are not the caller's own memory",
				x.w, x.w+n, q, c, errName(err), x.fed[q])
			return
		}
	}
}

func (x *parserExec) checkSeqFields(seqs []lz.Seq, lits []byte) {
	p := int64(x.w)
	sumLit := int64(0)
	minM := x.cc.MinMatch()
	for i, s := range seqs {
		p += int64(s.LitLen)
		sumLit += int64(s.LitLen)
		if s.Aux != 0 {
			x.report("C02", "seq %d: Aux=%d", i, s.Aux)
		}
		if !(1 <= s.Offset && int64(s.Offset) <= int64(x.cc.WindowSize)) {
			x.report("C02", "seq %d at stream position %d: Offset=%d outside [1, WindowSize=%d]", i, p, s.Offset, x.cc.WindowSize)
		}
		if int64(s.Offset) > p {
			x.report("C02", "seq %d at stream position %d: Offset=%d reaches before the start of the stream", i, p, s.Offset)
		}
		if int64(s.MatchLen) < int64(minM) {
			x.report("C02", "seq %d at stream position %d: MatchLen=%d below the minimum %d", i, p, s.MatchLen, minM)
		}
		if x.cc.Kind == "OSAP" && int64(s.MatchLen) > int64(x.cc.MaxMatchLen) {
			x.report("C02", "seq %d at stream position %d: MatchLen=%d above MaxMatchLen=%d", i, p, s.MatchLen, x.cc.MaxMatchLen)
		}
		if int64(s.Offset) == int64(x.cc.WindowSize) {
			x.offsetEqWindow++
		}
		if int64(s.MatchLen) == int64(minM) {
			x.minLenMatches++
		}
		if p > int64(x.cc.WindowSize) {
			x.streamBeyondWindow = true
		}
		p += int64(s.MatchLen)
	}
	if sumLit > int64(len(lits)) {
		x.report("C02", "sequences claim %d literal bytes, block carries %d", sumLit, len(lits))
	}
}

// checkMaximal implements C19's first two clauses on a block that has already
// been validated by the expander.
func (x *parserExec) checkMaximal(seqs []lz.Seq, n int) {
	if x.cc.Kind == "OSAP" {
		return
	}
	end := x.w + n
	p := x.w
	for i, s := range seqs {
		p += int(s.LitLen)
		m, o := int(s.MatchLen), int(s.Offset)
		if o <= 0 || o > p || p+m > len(x.fed) {
			return
		}
		e := p + m
		if e != end && e < len(x.fed) {
			if x.fed[e] == x.fed[e-o] {
				x.report("C19", "seq %d: match at %d (len %d, offset %d) can be extended to the right: next byte %#x equals the byte %d back; block ends at %d",
					i, p, m, o, x.fed[e], o, end)
			} else if m > 8 {
				x.longMatchEndsEarly = true
			}
		}
		if (x.cc.Kind == "BHP" || x.cc.Kind == "BDHP") && s.LitLen > 0 {
			src := p - 1 - o
			if src >= x.off {
				x.backwardChecked++
				if x.fed[p-1] == x.fed[src] {
					x.report("C19", "seq %d: literal %#x directly in front of the match at %d equals the byte %d before it (source %d is still buffered, buffer starts at %d)",
						i, x.fed[p-1], p, o, src, x.off)
				}
			}
		}
		p = e
	}
}

// bufParser drives lz.ParserBuffer directly, the way a parser implemented
// outside of the module would: it embeds the buffer and moves W itself. Parse
// emits the next min(BlockSize, unparsed) bytes as literals.
type bufParser struct {
	lz.ParserBuffer
}

func newBufParser(cfg PCfg) (*bufParser, error) {
	b := new(bufParser)
	err := b.Init(lz.BufConfig{ShrinkSize: cfg.ShrinkSize, BufferSize: cfg.BufferSize,
		WindowSize: cfg.WindowSize, BlockSize: cfg.BlockSize})
	if err != nil {
		return nil, err
	}
	return b, nil
}

func (b *bufParser) ParserConfig() lz.ParserConfig { return nil }

func (b *bufParser) Parse(blk *lz.Block, flags int) (int, error) {
	n := len(b.Data) - b.W
	if n > b.BlockSize {
		n = b.BlockSize
	}
	if blk != nil {
		blk.Sequences = blk.Sequences[:0]
		blk.Literals = blk.Literals[:0]
	}
	if n == 0 {
		return 0, lz.ErrEmptyBuffer
	}
	if blk != nil {
		blk.Literals = append(blk.Literals, b.Data[b.W:b.W+n]...)
	}
	b.W += n
	return n, nil
}

func (x *parserExec) doPeekAt(op POp) {
	pk, ok := x.p.(interface {
		PeekAt(n int, off int64) ([]byte, error)
	})
	if !ok || op.Len < 0 {
		return
	}
	var q []byte
	var err error
	if x.call("PeekAt", []string{"C15", "C16"}, func() { q, err = pk.PeekAt(op.Len, op.Off) }) {
		return
	}
	i := op.Off - int64(x.off)
	if !(0 <= i && i < int64(x.buffered())) {
		if len(q) != 0 || err != lz.ErrOutOfBuffer {
			x.report("C15", "PeekAt(%d, off %d) with retained range [%d,%d) = (%d bytes, %s); want (none, ErrOutOfBuffer)",
				op.Len, op.Off, x.off, len(x.fed), len(q), errName(err))
		}
		return
	}
	avail := x.buffered() - int(i)
	var wantErr error
	if avail < op.Len {
		wantErr = lz.ErrEndOfBuffer
	}
	if err != wantErr {
		x.report("C15", "PeekAt(%d, off %d) with retained range [%d,%d): err = %s; want %s",
			op.Len, op.Off, x.off, len(x.fed), errName(err), errName(wantErr))
	}
	// the slice returned starts at the offset and must show stream bytes
	m := minInt(len(q), avail)
	if len(q) < minInt(op.Len, avail) {
		x.report("C15", "PeekAt(%d, off %d) returned %d bytes although %d are retained from there", op.Len, op.Off, len(q), avail)
	}
	if !bytesEqual(q[:m], x.fed[op.Off:int(op.Off)+m]) {
		x.report("C15", "PeekAt(%d, off %d) returned %q; the stream has %q there", op.Len, op.Off, q[:m], x.fed[op.Off:int(op.Off)+m])
	}
	if x.shrinkPos > 0 {
		x.readsAfterShrink++
	}
}
