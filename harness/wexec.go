package harness

import (
	"bufio"
	"bytes"
	"encoding/json"
	"errors"
	"fmt"
	"io"
	"strings"
	"testing/iotest"

	"github.com/ulikunitz/lz"
	"pgregory.net/rapid"
)

// WrapCase is a history of a WrappedParser: a configuration, a scripted reader
// and the flags of the successive Parse calls (used cyclically). The harness
// keeps calling Parse until io.EOF has been returned Tail+1 times.
type WrapCase struct {
	Cfg   PCfg         `json:"cfg"`
	R     ReaderScript `json:"r"`
	Flags []int        `json:"flags"`
	Tail  int          `json:"tail"`
	Nil   []int        `json:"nilCalls,omitempty"` // indices of calls made with a nil block
	// Pre: the wrapped parser is first used on another reader for some
	// calls and then Reset to the reader of the case (C13).
	Pre *WrapPre `json:"pre,omitempty"`
	// Multi: the same data also comes through an io.MultiReader whose parts
	// are readers of several standard kinds (some implement io.WriterTo, some
	// do not, some return io.EOF together with their last bytes).
	Multi []MultiPart `json:"multi,omitempty"`
}

// MultiPart is one part of the io.MultiReader: N bytes (the last part takes
// the rest) behind a reader of the given kind.
type MultiPart struct {
	N    int    `json:"n"`
	Kind string `json:"kind"`
}

type onlyReader struct{ r io.Reader }

func (o onlyReader) Read(p []byte) (int, error) { return o.r.Read(p) }

func multiReader(data []byte, parts []MultiPart) io.Reader {
	var rs []io.Reader
	pos := 0
	for i, pt := range parts {
		n := pt.N
		if n < 0 {
			n = 0
		}
		if pos+n > len(data) || i == len(parts)-1 {
			n = len(data) - pos
		}
		chunk := data[pos : pos+n]
		pos += n
		switch pt.Kind {
		case "bytes":
			rs = append(rs, bytes.NewReader(chunk))
		case "limit":
			rs = append(rs, io.LimitReader(bytes.NewReader(chunk), int64(len(chunk))))
		case "plain":
			rs = append(rs, onlyReader{bytes.NewReader(chunk)})
		case "bufio":
			rs = append(rs, bufio.NewReaderSize(onlyReader{bytes.NewReader(chunk)}, 16))
		case "dataerr":
			rs = append(rs, iotest.DataErrReader(bytes.NewReader(chunk)))
		case "onebyte":
			rs = append(rs, iotest.OneByteReader(bytes.NewReader(chunk)))
		case "buffer":
			rs = append(rs, bytes.NewBuffer(append([]byte(nil), chunk...)))
		default:
			rs = append(rs, strings.NewReader(string(chunk)))
		}
	}
	return io.MultiReader(rs...)
}

// WrapPre is the prior use of a WrappedParser before WrappedParser.Reset.
type WrapPre struct {
	R     ReaderScript `json:"r"`
	Calls int          `json:"calls"`
	// Other: the prior use went through ANOTHER WrappedParser around the
	// same parser (or, with Direct, through the parser's own Write/Parse);
	// the wrapper of the case is created afterwards and Reset to the reader
	// of the case before it has read anything.
	Other  bool `json:"other,omitempty"`
	Direct bool `json:"direct,omitempty"`
}

type wrapBlock struct {
	N    int
	Err  string
	Seqs []lz.Seq
	Lits []byte
}

type wrapExec struct {
	c        WrapCase
	cc       PCfg
	findings []finding
	dead     bool

	blocks         []wrapBlock
	w              int
	calls          int
	eofs           int
	faults         int
	faultsWithData int
	reads          int
	nMatches       int
	refills        bool
	spun           bool
}

func (x *wrapExec) report(prop, format string, a ...any) {
	x.findings = append(x.findings, finding{prop, fmt.Sprintf(format, a...)})
}

func (x *wrapExec) first(prop string) (string, bool) {
	for _, f := range x.findings {
		if f.prop == prop {
			return f.msg, true
		}
	}
	return "", false
}

// runWrap executes the case. With reader == nil the scripted reader of the
// case is used; otherwise the given reader (differential on chunking).
func runWrap(c WrapCase, plain bool) (*wrapExec, error) { return runWrapMode(c, plain, false) }

func runWrapMode(c WrapCase, plain, multi bool) (*wrapExec, error) {
	x := &wrapExec{c: c, cc: c.Cfg.Completed()}
	var p lz.Parser
	var err error
	func() {
		defer func() {
			if r := recover(); r != nil {
				err = fmt.Errorf("NewParser panicked: %v", r)
			}
		}()
		p, err = c.Cfg.LZ().NewParser()
	}()
	if err != nil {
		return x, err
	}
	bc := p.BufferConfig()
	x.cc.BufferSize, x.cc.ShrinkSize, x.cc.WindowSize, x.cc.BlockSize = bc.BufferSize, bc.ShrinkSize, bc.WindowSize, bc.BlockSize
	data := []byte(c.R.Data)
	var sr *scriptReader
	var rd io.Reader
	if multi {
		rd = multiReader(data, c.Multi)
	} else if plain {
		rd = bytes.NewReader(data)
	} else {
		sr = newScriptReader(c.R)
		rd = sr
	}
	var wp *lz.WrappedParser
	if c.Pre == nil {
		wp = lz.Wrap(rd, p)
	} else {
		wp = lz.Wrap(newScriptReader(c.Pre.R), p)
		panicked := func() (pn bool) {
			defer func() {
				if r := recover(); r != nil {
					pn = true
					x.report("C16", "WrappedParser panicked during the prior use or in Reset: %v", r)
				}
			}()
			var b lz.Block
			if c.Pre.Direct {
				_, _ = p.Write(c.Pre.R.Data)
				for i := 0; i < c.Pre.Calls; i++ {
					if _, err := p.Parse(&b, 0); err != nil {
						break
					}
				}
			} else {
				for i := 0; i < c.Pre.Calls; i++ {
					// the caller goes on after a reader fault and stops at
					// io.EOF
					if _, err := wp.Parse(&b, 0); err != nil && !isReaderFault(err) {
						break
					}
				}
			}
			if c.Pre.Other || c.Pre.Direct {
				// a new wrapper around the used parser, Reset at once
				wp = lz.Wrap(bytes.NewReader([]byte("a reader that is never read")), p)
			}
			wp.Reset(rd)
			return false
		}()
		if panicked {
			x.dead = true
			return x, nil
		}
	}
	defer func() {
		if sr != nil {
			x.faultsWithData = sr.faultData
			x.reads = sr.calls
		}
	}()
	handed := func() int {
		if sr != nil {
			return sr.pos
		}
		return len(data)
	}
	nilCall := map[int]bool{}
	for _, i := range c.Nil {
		nilCall[i] = true
	}
	var blk lz.Block
	maxCalls := len(data) + len(c.R.Events) + c.Tail + 8
	props := []string{"C16"}
	if x.cc.ShrinkSize < x.cc.BufferSize {
		props = append(props, "C08")
	}
	for x.calls = 0; x.calls < maxCalls; x.calls++ {
		flags := 0
		if len(c.Flags) > 0 {
			flags = c.Flags[x.calls%len(c.Flags)]
		}
		blk.Sequences = append(blk.Sequences[:0], garbageSeq)
		blk.Literals = append(blk.Literals[:0], 0xaa)
		var n int
		var perr error
		isNil := nilCall[x.calls]
		panicked := func() (pn bool) {
			defer func() {
				if r := recover(); r != nil {
					pn = true
					for _, pr := range props {
						x.report(pr, "WrappedParser.Parse panicked: %v", r)
					}
				}
			}()
			if isNil {
				n, perr = wp.Parse(nil, flags)
			} else {
				n, perr = wp.Parse(&blk, flags)
			}
			return false
		}()
		if panicked {
			x.dead = true
			return x, nil
		}
		if sr != nil && sr.spun {
			x.spun = true
			x.report("C16", "WrappedParser.Parse keeps calling the reader without progress")
			x.report("C08", "WrappedParser.Parse keeps calling the reader without progress")
			x.dead = true
			return x, nil
		}
		fed := data[:handed()]
		rec := wrapBlock{N: n, Err: errName(perr)}
		if !isNil {
			rec.Seqs, rec.Lits = cloneSeqs(blk.Sequences), cloneBytes(blk.Literals)
		}
		x.blocks = append(x.blocks, rec)
		switch {
		case perr == nil:
			un := len(fed) - x.w
			if n < 1 || n > un {
				x.report("C08", "call %d: Parse returned n=%d, nil with %d undelivered bytes read so far", x.calls, n, un)
				x.report("C01", "call %d: Parse returned n=%d, nil with %d undelivered bytes read so far", x.calls, n, un)
				x.dead = true
				return x, nil
			}
			if isNil {
				x.w += n
				continue
			}
			out, eerr := ExpandBlock(fed[:x.w], blk.Sequences, blk.Literals, un)
			if eerr != nil || len(out) != n || !bytesEqual(out, fed[x.w:x.w+n]) {
				msg := fmt.Sprintf("call %d: block at stream position %d (n=%d) does not expand to the bytes the reader produced (expansion error %v, %d bytes)",
					x.calls, x.w, n, eerr, len(out))
				x.report("C08", "%s", msg)
				x.report("C01", "%s", msg)
				x.dead = true
				return x, nil
			}
			x.nMatches += len(blk.Sequences)
			x.w += n
			if x.w > x.cc.BufferSize {
				x.refills = true
			}
		case perr == io.EOF:
			x.eofs++
			if n != 0 {
				x.report("C08", "call %d: io.EOF returned with n=%d", x.calls, n)
			}
			if x.w != len(fed) || len(fed) != len(data) {
				x.report("C08", "call %d: io.EOF returned after %d bytes delivered; the reader produced %d of %d bytes",
					x.calls, x.w, len(fed), len(data))
				x.report("C01", "call %d: io.EOF returned after %d bytes delivered; the reader produced %d of %d bytes",
					x.calls, x.w, len(fed), len(data))
			}
			if !isNil && (len(blk.Sequences) != 0 || len(blk.Literals) != 0) {
				x.report("C08", "call %d: io.EOF returned with a non-empty block", x.calls)
			}
			if x.eofs > c.Tail {
				return x, nil
			}
		case isReaderFault(perr):
			x.faults++
			if sr != nil {
				known := false
				for _, e := range sr.produced {
					if e == perr {
						known = true
					}
				}
				if !known {
					x.report("C08", "call %d: Parse returned %s, which is none of the errors the reader has returned (%d faults so far)", x.calls, errName(perr), len(sr.produced))
				}
			}
			// every reader error surfaced must be one the reader of this
			// stream has produced (a fault that came with data may be
			// swallowed, so fewer is legal; more is not)
			if produced := readerFaults(sr); x.faults > produced {
				x.report("C08", "call %d: Parse returned a reader error although the reader has produced only %d faults and %d were already returned", x.calls, produced, x.faults-1)
				x.report("C16", "call %d: wrapped Parse returned an error the reader of this stream never produced", x.calls)
				x.report("C13", "call %d: wrapped Parse returned an error the reader of this stream never produced", x.calls)
			}
			if x.eofs > 0 {
				x.report("C08", "call %d: reader error returned after io.EOF", x.calls)
			}
			if n != 0 {
				x.report("C08", "call %d: reader error returned with n=%d", x.calls, n)
			}
			if x.w != len(fed) {
				x.report("C08", "call %d: reader error returned although only %d of the %d bytes read so far were delivered",
					x.calls, x.w, len(fed))
			}
		default:
			x.report("C08", "call %d: Parse returned error %s (neither io.EOF nor the reader's error)", x.calls, errName(perr))
			x.report("C16", "call %d: wrapped Parse returned undocumented error %s", x.calls, errName(perr))
			if errors.Is(perr, lz.ErrEmptyBuffer) || errors.Is(perr, lz.ErrFullBuffer) {
				x.dead = true
				return x, nil
			}
		}
		if x.eofs > 0 && perr != io.EOF {
			x.report("C08", "call %d: Parse returned (%d, %s) after io.EOF had been returned", x.calls, n, errName(perr))
		}
	}
	if x.eofs == 0 {
		x.report("C08", "no io.EOF after %d calls for %d bytes", x.calls, len(data))
		x.report("C16", "wrapped Parse makes no progress: no io.EOF after %d calls for %d bytes", x.calls, len(data))
	}
	return x, nil
}

func readerFaults(sr *scriptReader) int {
	if sr == nil {
		return 0
	}
	return sr.faults
}

// sameBlocks compares the block sequences of two runs up to the first io.EOF.
func sameBlocks(a, b []wrapBlock) (bool, string) {
	trim := func(s []wrapBlock) []wrapBlock {
		for i, r := range s {
			if r.Err == "io.EOF" {
				return s[:i+1]
			}
		}
		return s
	}
	a, b = trim(a), trim(b)
	if len(a) != len(b) {
		return false, fmt.Sprintf("%d blocks vs %d blocks", len(a), len(b))
	}
	for i := range a {
		if a[i].N != b[i].N || a[i].Err != b[i].Err || !seqsEqual(a[i].Seqs, b[i].Seqs) || !bytesEqual(a[i].Lits, b[i].Lits) {
			return false, fmt.Sprintf("block %d differs: (n=%d,%s,%d seqs,%d lits) vs (n=%d,%s,%d seqs,%d lits)", i,
				a[i].N, a[i].Err, len(a[i].Seqs), len(a[i].Lits), b[i].N, b[i].Err, len(b[i].Seqs), len(b[i].Lits))
		}
	}
	return true, ""
}

// genWrapCase draws a wrapped-parser history. Inputs are bounded in buffer
// fills (every GSAP/OSAP refill costs one suffix sort), not in bytes.
func genWrapCase(t *rapid.T, kind string, maxBuf int, faults, eqShrink, nilCalls bool) WrapCase {
	c := genWrapCase0(t, kind, maxBuf, faults, eqShrink, nilCalls)
	if faults && rapid.IntRange(0, 9).Draw(t, "preUse") < 2 {
		// the wrapped parser was used on another (possibly failing) reader
		// before and Reset to the reader of the case
		c.Pre = genWrapPre(t, true)
	}
	return c
}

func genWrapPre(t *rapid.T, faults bool) *WrapPre {
	pre := genText(t, "preText", 300)
	how := rapid.IntRange(0, 3).Draw(t, "preHow")
	return &WrapPre{R: genReaderScript(t, "preRS", pre, faults), Calls: rapid.IntRange(0, 12).Draw(t, "preCalls"), Other: how == 1, Direct: how == 2}
}

func genWrapCase0(t *rapid.T, kind string, maxBuf int, faults, eqShrink, nilCalls bool) WrapCase {
	cfg := genPCfgOpt(t, kind, maxBuf, eqShrink)
	cc := cfg.Completed()
	bsz := minInt(cc.BufferSize, 4*maxBuf)
	fills := rapid.IntRange(0, 5).Draw(t, "fills")
	maxLen := minInt((fills+1)*bsz, 2500)
	var n int
	switch weighted(t, "lenKind", 5, 2, 2, 1) {
	case 0:
		n = rapid.IntRange(0, maxLen).Draw(t, "len")
	case 1:
		n = minInt(maxLen, bsz*rapid.IntRange(0, 4).Draw(t, "lenBuf")+rapid.IntRange(-1, 1).Draw(t, "lenBufD")+1)
	case 2:
		n = minInt(maxLen, minInt(cc.BlockSize, 4*maxBuf)*rapid.IntRange(0, 6).Draw(t, "lenBlk"))
	default:
		n = rapid.IntRange(0, minInt(maxLen, 8)).Draw(t, "lenTiny")
	}
	if n < 0 {
		n = 0
	}
	text := genText(t, "text", maxInt(n, 1), cc.BlockSize, bsz)
	src := &textSource{text: text}
	data := src.next(n)
	c := WrapCase{Cfg: cfg, R: genReaderScript(t, "rs", data, faults)}
	nf := rapid.IntRange(1, 3).Draw(t, "nflags")
	for i := 0; i < nf; i++ {
		c.Flags = append(c.Flags, genFlags(t, histOpts{ntl: 30}))
	}
	c.Tail = 3
	if rapid.IntRange(0, 3).Draw(t, "multi") == 0 {
		for k := rapid.IntRange(1, 4).Draw(t, "nparts"); k > 0; k-- {
			c.Multi = append(c.Multi, MultiPart{
				N:    genSize(t, "partLen", len(data)+1, 0, 1, cc.BlockSize, bsz),
				Kind: rapid.SampledFrom([]string{"bytes", "limit", "plain", "bufio", "dataerr", "onebyte", "strings"}).Draw(t, "partKind"),
			})
		}
	}
	if nilCalls {
		k := rapid.IntRange(0, 3).Draw(t, "nnil")
		for i := 0; i < k; i++ {
			c.Nil = append(c.Nil, rapid.IntRange(0, 12).Draw(t, "nilAt"))
		}
	}
	return c
}

func wrapReplayer(prop string, differential bool) replayFn {
	return func(raw json.RawMessage) (string, bool, error) {
		var c WrapCase
		if err := json.Unmarshal(raw, &c); err != nil {
			return "", false, err
		}
		msg, bad, _, err := checkWrap(prop, c, differential)
		return msg, bad, err
	}
}

// checkWrap runs one wrapped-parser case for prop.
func checkWrap(prop string, c WrapCase, differential bool) (msg string, bad bool, x *wrapExec, err error) {
	x, err = runWrap(c, false)
	if err != nil {
		return "", false, x, fmt.Errorf("%w: %v", errConfigRejected, err)
	}
	if m, b := x.first(prop); b {
		return m, true, x, nil
	}
	if differential && !x.dead && x.faults == 0 && !scriptHasFaults(c.R) {
		y, err := runWrap(c, true)
		if err != nil {
			return "", false, x, err
		}
		if m, b := y.first(prop); b {
			return "with bytes.Reader: " + m, true, x, nil
		}
		if ok, why := sameBlocks(x.blocks, y.blocks); !ok && !y.dead {
			return "block sequence depends on the chunking of the reader: " + why, true, x, nil
		}
		if len(c.Multi) > 0 {
			z, err := runWrapMode(c, false, true)
			if err != nil {
				return "", false, x, err
			}
			if m, b := z.first(prop); b {
				return "with an io.MultiReader of standard readers: " + m, true, x, nil
			}
			if ok, why := sameBlocks(y.blocks, z.blocks); !ok && !z.dead {
				return "block sequence through an io.MultiReader of standard readers differs from bytes.Reader: " + why, true, x, nil
			}
		}
	} else if len(c.Multi) > 0 {
		// the stream model alone judges the run through the io.MultiReader
		z, err := runWrapMode(c, false, true)
		if err != nil {
			return "", false, x, err
		}
		if m, b := z.first(prop); b {
			return "with an io.MultiReader of standard readers: " + m, true, x, nil
		}
	}
	return "", false, x, nil
}

func scriptHasFaults(r ReaderScript) bool {
	for _, e := range r.Events {
		if readerFaultErrs[e.Err] != nil {
			return true
		}
	}
	return false
}

// isWrapCase tells the two case formats apart (a WrapCase has a reader at top
// level, a ParserCase has ops).
func isWrapCase(raw []byte) bool {
	var probe struct {
		R   *json.RawMessage `json:"r"`
		Ops *json.RawMessage `json:"ops"`
	}
	if err := json.Unmarshal(raw, &probe); err != nil {
		return false
	}
	return probe.R != nil && probe.Ops == nil
}
