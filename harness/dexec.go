package harness

import (
	"fmt"
	"io"
	"os"
	"strings"

	"github.com/ulikunitz/lz"
)

// DCfg is a decoder configuration as plain data.
type DCfg struct {
	WindowSize int `json:"windowSize"`
	BufferSize int `json:"bufferSize"`
}

func (c DCfg) completed() DCfg {
	d := c
	if d.WindowSize == 0 {
		d.WindowSize = 8 * miB
	}
	if d.BufferSize == 0 {
		d.BufferSize = 2 * d.WindowSize
	}
	return d
}

// WEvent is the behaviour of one call of the scripted writer: accept Accept
// bytes (-1 or more than offered: everything) and, if Err is set or fewer bytes
// than offered were accepted, return errScript. It obeys the io.Writer
// contract (a short write always comes with an error).
type WEvent struct {
	Accept int  `json:"accept"`
	Err    bool `json:"err,omitempty"`
	// Kind selects the error value of a fault: "" the harness's own error,
	// "F" lz.ErrFullBuffer (a bounded queue that reuses the library's
	// sentinel), "S" io.ErrShortWrite, "C" io.ErrClosedPipe. Whatever it is,
	// it is the writer's error and has to come back as it is.
	Kind string `json:"kind,omitempty"`
	// Forever: the event is never used up - from here on the writer answers
	// every call in this way (a consumer that has gone away, a queue nobody
	// drains any more). The call in which the fault happens has to return
	// the writer's error; the history ends there.
	Forever bool `json:"forever,omitempty"`
}

func writerFaultErr(kind string) error {
	switch kind {
	case "F":
		return lz.ErrFullBuffer
	case "S":
		return io.ErrShortWrite
	case "C":
		return io.ErrClosedPipe
	}
	return errScript
}

// scriptWriter records everything it accepted and detects spinning callers.
type scriptWriter struct {
	events     []WEvent
	got        []byte
	calls      int // calls within the current API call
	emptyRun   int // consecutive zero-length writes within the current API call
	maxEmpty   int
	spun       bool
	faults     int
	shortFault int // faults that accepted 0 < j < len
	lastOffer  []byte
	lastFault  error  // the error of the most recent fault
	lens       *[]int // lengths offered by all writer calls of the case
	stuck      bool   // a Forever event has produced a fault
	checked    int    // prefix of got that has been compared with the reference expansion
}

func (w *scriptWriter) beginCall() { w.calls, w.emptyRun = 0, 0 }

func (w *scriptWriter) Write(p []byte) (int, error) {
	w.calls++
	w.lastOffer = append(w.lastOffer[:0], p...)
	if w.lens != nil {
		*w.lens = append(*w.lens, len(p))
	}
	if len(p) == 0 {
		w.emptyRun++
		if w.emptyRun > w.maxEmpty {
			w.maxEmpty = w.emptyRun
		}
	} else {
		w.emptyRun = 0
	}
	// Two consecutive empty drains inside one call already prove that the
	// retry loop cannot change its state any more; 8 leaves room for other
	// correct implementations. The bound on calls is a backstop.
	if w.emptyRun >= 8 || w.calls > 100000 {
		w.spun = true
		return 0, errSpin
	}
	n := len(p)
	var err error
	if len(w.events) > 0 {
		ev := w.events[0]
		if !ev.Forever {
			w.events = w.events[1:]
		}
		if ev.Accept >= 0 && ev.Accept < n {
			n = ev.Accept
			err = writerFaultErr(ev.Kind)
		}
		if ev.Err {
			err = writerFaultErr(ev.Kind)
		}
		if err != nil {
			if ev.Forever {
				w.stuck = true
			}
			w.lastFault = err
			w.faults++
			if n > 0 && n < len(p) {
				w.shortFault++
			}
		}
	}
	w.got = append(w.got, p[:n]...)
	return n, err
}

// flushingWriter gives a scriptWriter a Flush method.
type flushingWriter struct {
	*scriptWriter
	flushes int
}

func (w *flushingWriter) Flush() error { w.flushes++; return nil }

// asWriter is the io.Writer handed to the Decoder for w.
func (x *decExec) asWriter(w *scriptWriter) io.Writer {
	if x.c.WriterFlush {
		return &flushingWriter{scriptWriter: w}
	}
	return w
}

// DOp is one concrete decoder operation.
type DOp struct {
	Op    string   `json:"op"`
	C     byte     `json:"c,omitempty"`
	Data  Bytes    `json:"data,omitempty"`
	M     uint32   `json:"m,omitempty"`
	O     uint32   `json:"o,omitempty"`
	Seqs  []lz.Seq `json:"seqs,omitempty"`
	Lits  Bytes    `json:"lits,omitempty"`
	Len   int      `json:"len,omitempty"`
	W     *WEvent  `json:"w,omitempty"`     // writeto on a DecoderBuffer: behaviour of the writer
	Empty bool     `json:"empty,omitempty"` // write/wblock: empty slices are handed over as empty non-nil slices instead of nil
	Cfg   *DCfg    `json:"cfg,omitempty"`   // reinit: Init is called again with this configuration (nil: the one of the case)
}

// DecCase is a decoder history: vehicle "dbuf" (lz.DecoderBuffer used
// directly) or "dec" (lz.Decoder with a scripted writer).
type DecCase struct {
	Vehicle string   `json:"vehicle"`
	Cfg     DCfg     `json:"cfg"`
	Writer  []WEvent `json:"writer,omitempty"`
	Ops     []DOp    `json:"ops"`
	// Dict (dbuf): after Init the caller primes the window with a preset
	// dictionary through the exported fields (there is no method for it):
	// Data = append(Data, dict...), R = len(Data). These bytes can be
	// referenced by matches, they are not part of the output and are not
	// counted by Off.
	Dict Bytes `json:"dict,omitempty"`
	// Direct (dbuf): the DecoderBuffer is not initialised with Init; the
	// caller sets the exported configuration fields of the zero value itself
	// (WindowSize may then be 0: no byte can be referenced; BufferSize is
	// given and larger than the window). Verify accepts what is set.
	Direct bool `json:"direct,omitempty"`
	// WriterFlush (dec): the writer also has a Flush() error method, as
	// buffered writers have; it does not remember errors of Write (its Flush
	// returns nil), which the io.Writer contract does not ask for.
	WriterFlush bool `json:"writerFlush,omitempty"`
	// PreCap (dbuf): the caller hands in an array of this capacity in
	// DecoderBuffer.Data before Init (the buffer makes use of it); -1: an
	// empty slice that is not nil (capacity 0).
	PreCap int64 `json:"preCap,omitempty"`
}

// hugeArray is the one array behind all caller-supplied arrays of more than a
// MiB (up to 2^33 bytes and a little): it is never touched beyond the first
// pages, so it costs address space only; allocating and clearing a new one for
// every case would cost seconds.
var hugeArray []byte

func preCapSlice(n int64) []byte {
	if n < 0 {
		return []byte{}
	}
	if n <= 1<<20 {
		return make([]byte, 0, n)
	}
	if int64(cap(hugeArray)) < n {
		hugeArray = make([]byte, 0, maxInt(int(n), 1<<33+8192))
	}
	return hugeArray[:0:n]
}

type decExec struct {
	c   DecCase
	cc  DCfg
	buf *lz.DecoderBuffer
	dec *lz.Decoder
	wr  *scriptWriter

	all    []byte // reference expansion of everything accepted since Init/Reset
	cursor int    // dbuf: number of bytes read out
	log    []DOp

	findings []finding
	dead     bool

	// classification
	shrunkMidRead     bool // shrink discarded bytes while 0 < R < len(Data)
	matchAtWindow     bool // a later match referenced distance == WindowSize
	overlapMatches    int
	hostileInShrunk   bool
	hostileAfterValid bool
	shrunk            bool
	retryLoopRan      int // calls whose argument exceeded the free space at entry
	spins             int
	shrinkDuringBlock int
	bigItems          int
	excludedD14       int
	faultInBlock      int
	faultsTotal       int
	nBlocks, nSeqs    int
	rejected          int
	retriesPending    []DOp
	oversizeRefused   int
	retries           int
	shortFaults       int
	shortFaultInBlock int
	shortFaultSeen    int
	faultsSeen        int
	lastErr           error
	haveErr           bool
	callLens          []int
	stuckEnd          bool // the history ended at a writer that fails for good
	relCalls          int
	base              int // bytes of a preset dictionary at the start of all (not written through the methods)
}

func (x *decExec) report(prop, format string, a ...any) {
	x.findings = append(x.findings, finding{prop, fmt.Sprintf(format, a...)})
}

func (x *decExec) reportAll(props []string, format string, a ...any) {
	for _, p := range props {
		x.report(p, format, a...)
	}
}

func (x *decExec) first(prop string) (string, bool) {
	for _, f := range x.findings {
		if f.prop == prop {
			return f.msg, true
		}
	}
	return "", false
}

// wfault tells whether err is the error the writer returned during the current
// call (whatever its value: the writer may reuse a sentinel of the library).
func (x *decExec) wfault(err error) bool {
	return err != nil && x.wr != nil && x.wr.faults > x.faultsSeen && err == x.wr.lastFault
}

func (x *decExec) Case() DecCase {
	c := x.c
	c.Ops = append([]DOp(nil), x.log...)
	return c
}

func newDecExec(c DecCase) (*decExec, error) {
	x := &decExec{c: c, cc: c.Cfg.completed()}
	cfg := lz.DecoderConfig{WindowSize: c.Cfg.WindowSize, BufferSize: c.Cfg.BufferSize}
	var err error
	var panicked any
	func() {
		defer func() { panicked = recover() }()
		switch c.Vehicle {
		case "dbuf":
			x.buf = new(lz.DecoderBuffer)
			if c.PreCap != 0 {
				x.buf.Data = preCapSlice(c.PreCap)
			}
			if c.Direct {
				x.cc = c.Cfg // nothing is completed: the fields are taken as they are
				if cfg.BufferSize <= cfg.WindowSize || cfg.WindowSize < 0 {
					err = fmt.Errorf("direct configuration needs BufferSize > WindowSize >= 0")
					return
				}
				if err = cfg.Verify(); err != nil {
					return
				}
				x.buf.DecoderConfig = cfg
				return
			}
			err = x.buf.Init(cfg)
			if err == nil && len(c.Dict) > 0 && len(c.Dict) <= x.cc.WindowSize && len(c.Dict) < x.cc.BufferSize {
				x.buf.Data = append(x.buf.Data, c.Dict...)
				x.buf.R = len(x.buf.Data)
				x.all = append(x.all, c.Dict...)
				x.cursor = len(c.Dict)
				x.base = len(c.Dict)
			}
		case "dec":
			x.wr = &scriptWriter{events: append([]WEvent(nil), c.Writer...), lens: &x.callLens}
			x.dec, err = lz.NewDecoder(x.asWriter(x.wr), cfg)
		default:
			err = fmt.Errorf("unknown vehicle %q", c.Vehicle)
		}
	}()
	if panicked != nil {
		return x, fmt.Errorf("init panicked: %v", panicked)
	}
	return x, err
}

// strictKnown switches the exclusion of known findings off; the driver uses
// it to confirm that a pinned known finding still fails in the recorded way.
func strictKnown() bool { return os.Getenv("VERIF_STRICT_KNOWN") == "1" }

// isSpaceErr tells whether err is one of the two "does not fit" answers.
func isSpaceErr(err error) bool {
	return err == lz.ErrFullBuffer || (err != nil && strings.Contains(err.Error(), "MatchLen"))
}

func isMatchLenErr(err error) bool {
	return err != nil && err != lz.ErrFullBuffer && strings.Contains(err.Error(), "MatchLen")
}

// malformed reports whether a sequence is malformed in the sense of C05 for a
// stream of `have` bytes in front of it.
func (x *decExec) malformed(s lz.Seq, have int, litsLeft int) (bool, string) {
	if int64(s.LitLen) > int64(litsLeft) {
		return true, "LitLen larger than the remaining literals"
	}
	if s.Offset == 0 && s.MatchLen > 0 {
		return true, "Offset 0 with MatchLen > 0"
	}
	avail := int64(have) + int64(s.LitLen)
	if avail > int64(x.cc.WindowSize) {
		avail = int64(x.cc.WindowSize)
	}
	if int64(s.Offset) > avail {
		return true, fmt.Sprintf("Offset %d larger than min(WindowSize, bytes available)=%d", s.Offset, avail)
	}
	return false, ""
}

func (x *decExec) appendMatch(m, o uint32) {
	for i := uint32(0); i < m; i++ {
		x.all = append(x.all, x.all[len(x.all)-int(o)])
	}
}

// guard runs f under recover; a panic violates C05 (and stops the case).
func (x *decExec) guard(what string, f func()) (panicked bool) {
	defer func() {
		if r := recover(); r != nil {
			panicked = true
			x.report("C05", "%s panicked: %v", what, r)
			x.report("C04", "%s panicked: %v", what, r)
			x.report("C07", "%s panicked: %v", what, r)
			x.dead = true
		}
	}()
	f()
	return false
}

func scribble(p []byte) {
	for i := range p {
		p[i] = 0xee
	}
}

// state of the DecoderBuffer before a call
type bufState struct {
	lenData, r, allLen int
}

func (x *decExec) before() bufState {
	if x.buf == nil {
		return bufState{allLen: len(x.all)}
	}
	return bufState{len(x.buf.Data), x.buf.R, len(x.all)}
}

// permanentRefusal reports whether a "does not fit" answer for a well-formed
// item of g bytes is wrong at DecoderBuffer level. ErrFullBuffer is always a
// legal answer there (BufferSize is a soft capacity that follows cap(Data), so
// the model does not predict when the buffer is full); the MatchLen error
// means "can never fit" and is wrong for an item that fits into
// BufferSize-WindowSize of the configured geometry.
func (x *decExec) permanentRefusal(err error, g int64) bool {
	return isMatchLenErr(err) && g <= int64(x.cc.BufferSize-x.cc.WindowSize)
}

// relations checks the DecoderBuffer fields against the model after an op.
func (x *decExec) relations(what string, st bufState, rejecting bool) {
	b := x.buf
	if b == nil {
		return
	}
	props := []string{"C04"}
	if rejecting {
		props = append(props, "C05")
	}
	// The read position belongs to C18 as well: bytes at or after it must
	// never be dropped and bytes before it never be offered again.
	rprops := append(append([]string{}, props...), "C18")
	if !(0 <= b.R && b.R <= len(b.Data)) {
		x.reportAll(rprops, "%s: R=%d outside [0,%d]", what, b.R, len(b.Data))
		x.dead = true
		return
	}
	// Buffers beyond 64 KiB in long histories: when the call did not discard
	// anything, only what it appended (and 64 bytes in front) is compared,
	// and everything on every 64th call - and whenever bytes were discarded.
	from := 0
	x.relCalls++
	if len(b.Data) > 1<<16 && x.relCalls%64 != 0 && what != "Reset" &&
		len(b.Data) == st.lenData+(len(x.all)-st.allLen) && st.lenData >= 64 {
		from = st.lenData - 64
	}
	if len(b.Data) > len(x.all) || !bytesEqual(b.Data[from:], x.all[len(x.all)-len(b.Data)+from:]) {
		x.reportAll(props, "%s: buffer content (%d bytes) is not the tail of the reference expansion (%d bytes) of what was reported as consumed",
			what, len(b.Data), len(x.all))
		x.dead = true
		return
	}
	if got := len(x.all) - len(b.Data) + b.R; got != x.cursor {
		x.reportAll(rprops, "%s: read position is at stream offset %d, model says %d (unread bytes dropped or bytes offered twice)",
			what, got, x.cursor)
		x.dead = true
		return
	}
	if w := minInt(x.cc.WindowSize, len(x.all)); len(b.Data) < w {
		x.reportAll(props, "%s: only %d bytes addressable, the window needs %d", what, len(b.Data), w)
	}
	if b.Off != int64(len(x.all)-x.base) {
		x.report("C17", "%s: Off=%d but %d bytes have been written since Init/Reset", what, b.Off, len(x.all)-x.base)
	}
	// classification: did this call discard bytes?
	if what != "Reset" {
		if discarded := st.lenData + (len(x.all) - st.allLen) - len(b.Data); discarded > 0 {
			x.shrunk = true
			if 0 < st.r && st.r < st.lenData {
				x.shrunkMidRead = true
			}
		}
	}
}

// step executes one top-level operation. For the Decoder vehicle the harness
// plays the documented caller: when a call fails with the writer's error, the
// unconsumed remainder (Sequences[k:], Literals[l:]; p[n:]; the byte; the
// Flush) is retried at once, until it succeeds. Retries are not logged: they
// are a deterministic function of the logged operations and the writer script.
func (x *decExec) step(op DOp) {
	if x.dead {
		return
	}
	x.log = append(x.log, op)
	x.apply(op)
	x.drain()
}

func (x *decExec) drain() {
	for i := 0; len(x.retriesPending) > 0 && !x.dead; i++ {
		if x.wr != nil && x.wr.stuck {
			// the writer fails for good: the documented caller gives up
			x.retriesPending = nil
			x.stuckEnd = true
			x.dead = true
			return
		}
		if i > 5000 {
			x.report("C18", "the retry protocol did not complete within 5000 retries")
			x.dead = true
			return
		}
		op := x.retriesPending[0]
		x.retriesPending = x.retriesPending[1:]
		x.retries++
		x.apply(op)
	}
}

func (x *decExec) apply(op DOp) {
	if x.dead {
		return
	}
	if x.wr != nil {
		x.wr.beginCall()
		x.shortFaultSeen = x.wr.shortFault
		x.faultsSeen = x.wr.faults
		x.haveErr = false
	}
	if x.c.PreCap > 1<<26 {
		// An array of gigabytes takes matches of gigabytes; the model does
		// not expand more than 64 MiB, and writing them would cost seconds
		// and memory: such operations are left out on these arrays.
		big := op.M > 1<<26
		for _, q := range op.Seqs {
			big = big || q.MatchLen > 1<<26
		}
		if big {
			return
		}
	}
	switch op.Op {
	case "wbyte":
		x.doWriteByte(op)
	case "write":
		x.doWrite(op)
	case "wmatch":
		x.doWriteMatch(op)
	case "wblock":
		x.doWriteBlock(op)
	case "read":
		x.doRead(op)
	case "writeto":
		x.doWriteTo(op)
	case "flush":
		x.doFlush()
	case "reset":
		x.doReset()
	case "reinit":
		x.doReinit(op)
	case "byteatend":
		x.doByteAtEnd(op)
	default:
		panic("unknown decoder op " + op.Op)
	}
	x.afterCall(op.Op)
}

// afterCall handles what is common to all Decoder calls: spin detection and the
// prefix relation of the writer's output.
func (x *decExec) afterCall(what string) {
	if x.wr == nil {
		return
	}
	if x.wr.spun {
		x.spins++
		// (a call that never returns has not accepted its - possibly valid -
		// input either: C07)
		x.reportAll([]string{"C06", "C07"}, "%s: the call keeps calling the writer without making progress (%d consecutive empty writes, %d writer calls within the one call)",
			what, x.wr.emptyRun, x.wr.calls)
		x.dead = true
		return
	}
	if what != "flush" && x.wr.calls >= 1 {
		x.retryLoopRan++
	}
	// C18: a fault of the writer inside this call must come back as the
	// writer's own error.
	if x.haveErr && x.wr.faults > x.faultsSeen && x.lastErr != x.wr.lastFault {
		x.report("C18", "%s: the writer failed during the call (%d faults) but the call returned %v instead of the writer's error",
			what, x.wr.faults-x.faultsSeen, x.lastErr)
	}
	got := x.wr.got
	// what was compared after earlier calls is not compared again
	from := minInt(x.wr.checked, len(got))
	if len(got) <= len(x.all) && bytesEqual(got[from:], x.all[from:len(got)]) {
		x.wr.checked = len(got)
	} else {
		x.report("C18", "%s: the writer has accepted %d bytes that are not a prefix of the reference expansion (%d bytes)", what, len(got), len(x.all))
		x.report("C04", "%s: the writer has received %d bytes that are not a prefix of the reference expansion (%d bytes)", what, len(got), len(x.all))
		x.dead = true
	}
}

func (x *decExec) doWriteByte(op DOp) {
	st := x.before()
	var err error
	if x.buf != nil {
		if x.guard("WriteByte", func() { err = x.buf.WriteByte(op.C) }) {
			return
		}
		if err == nil {
			x.all = append(x.all, op.C)
		} else {
			if err != lz.ErrFullBuffer {
				x.report("C04", "DecoderBuffer.WriteByte returned %v", err)
			}
		}
		x.relations("WriteByte", st, false)
		return
	}
	if x.guard("Decoder.WriteByte", func() { err = x.dec.WriteByte(op.C) }) {
		return
	}
	x.lastErr, x.haveErr = err, true
	switch {
	case err == nil:
		x.all = append(x.all, op.C)
	case x.wfault(err):
		x.retriesPending = append(x.retriesPending, op)
	case err == errSpin:
	default:
		x.reportAll([]string{"C07", "C04"}, "Decoder.WriteByte returned %v", err)
	}
}

func (x *decExec) doWrite(op DOp) {
	st := x.before()
	p := cloneBytes(op.Data)
	if len(op.Data) == 0 {
		p = nil
		if op.Empty {
			p = []byte{}
		}
	}
	var n int
	var err error
	if x.buf != nil {
		if x.guard("Write", func() { n, err = x.buf.Write(p) }) {
			return
		}
		if err == nil {
			if n != len(p) {
				x.report("C17", "DecoderBuffer.Write(%d bytes) = (%d, nil)", len(p), n)
			}
			x.all = append(x.all, op.Data...)
		} else {
			if n != 0 {
				x.report("C17", "DecoderBuffer.Write(%d bytes) = (%d, %v): a refused write reports bytes", len(p), n, err)
			}
			if err != lz.ErrFullBuffer {
				x.report("C04", "DecoderBuffer.Write returned %v", err)
			}
		}
		if !bytesEqual(p, op.Data) {
			x.report("C05", "Write modified the caller's slice")
		}
		scribble(p) // the caller reuses its slice
		x.relations("Write", st, false)
		return
	}
	if x.guard("Decoder.Write", func() { n, err = x.dec.Write(p) }) {
		return
	}
	x.lastErr, x.haveErr = err, true
	if n < 0 || n > len(p) {
		x.report("C17", "Decoder.Write(%d bytes) returned n=%d", len(p), n)
		x.dead = true
		return
	}
	scribble(p) // the caller reuses its slice
	x.all = append(x.all, op.Data[:n]...)
	switch {
	case err == nil:
		if n != len(p) {
			x.report("C17", "Decoder.Write(%d bytes) = (%d, nil)", len(p), n)
			x.report("C04", "Decoder.Write(%d bytes) = (%d, nil)", len(p), n)
		}
	case x.wfault(err):
		if n < len(p) {
			x.retriesPending = append(x.retriesPending, DOp{Op: "write", Data: op.Data[n:]})
		}
	case err == errSpin:
	default:
		// A plain byte slice is always valid input.
		x.reportAll([]string{"C07", "C04"}, "Decoder.Write(%d bytes) returned %v", len(p), err)
	}
}

func (x *decExec) doWriteMatch(op DOp) {
	if x.buf == nil {
		return
	}
	st := x.before()
	bad, why := x.malformed(lz.Seq{MatchLen: op.M, Offset: op.O}, len(x.all), 0)
	var n int
	var err error
	if x.guard("WriteMatch", func() { n, err = x.buf.WriteMatch(op.M, op.O) }) {
		return
	}
	switch {
	case bad:
		x.rejected++
		if err == nil {
			x.report("C05", "WriteMatch(m=%d, o=%d) accepted a malformed match (%s) with %d bytes written", op.M, op.O, why, len(x.all))
			x.dead = true
			return
		}
		if n != 0 {
			x.report("C05", "WriteMatch(m=%d, o=%d) rejected (%v) but reports n=%d", op.M, op.O, err, n)
		}
	case err == nil:
		if op.M > 1<<26 {
			// The model does not expand matches of more than 64 MiB. (A
			// buffer whose capacity has grown that far may accept one:
			// BufferSize follows cap(Data).) The case ends here without a
			// verdict.
			x.dead = true
			return
		}
		if int64(n) != int64(op.M) {
			x.report("C17", "WriteMatch(m=%d, o=%d) = (%d, nil)", op.M, op.O, n)
		}
		if op.O > 0 && int(op.O) < int(op.M) {
			x.overlapMatches++
		}
		if int(op.O) == x.cc.WindowSize && op.M > 0 && x.shrunkMidRead {
			x.matchAtWindow = true
		}
		x.appendMatch(op.M, op.O)
	default:
		if n != 0 {
			x.report("C17", "WriteMatch(m=%d, o=%d) = (%d, %v): a refused match reports bytes", op.M, op.O, n, err)
		}
		if !isSpaceErr(err) {
			x.report("C04", "WriteMatch(m=%d, o=%d): well-formed match (window %d, %d bytes written) refused with %v",
				op.M, op.O, x.cc.WindowSize, len(x.all), err)
			x.report("C05", "WriteMatch(m=%d, o=%d): well-formed match (window %d, %d bytes written) refused with %v",
				op.M, op.O, x.cc.WindowSize, len(x.all), err)
		} else if x.permanentRefusal(err, int64(op.M)) {
			x.reportAll([]string{"C07", "C04"}, "WriteMatch(m=%d, o=%d) refused for ever (%v) although it fits into BufferSize-WindowSize = %d-%d (%d bytes buffered, %d read)",
				op.M, op.O, err, x.cc.BufferSize, x.cc.WindowSize, st.lenData, st.r)
		}
	}
	x.relations("WriteMatch", st, bad)
}

// blockVerdict is the model's view of a WriteBlock result.
func (x *decExec) doWriteBlock(op DOp) {
	st := x.before()
	seqs := cloneSeqs(op.Seqs)
	lits := cloneBytes(op.Lits)
	if len(op.Seqs) == 0 && !op.Empty {
		seqs = nil
	}
	if len(op.Lits) == 0 {
		lits = nil
		if op.Empty {
			lits = []byte{}
		}
	}
	blk := lz.Block{Sequences: seqs, Literals: lits}
	var n, k, l int
	var err error
	what := "DecoderBuffer.WriteBlock"
	if x.buf != nil {
		if x.guard(what, func() { n, k, l, err = x.buf.WriteBlock(blk) }) {
			return
		}
	} else {
		what = "Decoder.WriteBlock"
		if x.guard(what, func() { n, k, l, err = x.dec.WriteBlock(blk) }) {
			return
		}
		x.lastErr, x.haveErr = err, true
	}
	x.nBlocks++
	if !seqsEqual(seqs, op.Seqs) || !bytesEqual(lits, op.Lits) {
		x.report("C05", "%s modified the caller's block", what)
	}
	// the caller reuses its block
	scribble(lits)
	for i := range seqs {
		seqs[i] = lz.Seq{LitLen: 0xeeeeeeee, MatchLen: 0xeeeeeeee, Offset: 0xeeeeeeee}
	}
	if k < 0 || k > len(op.Seqs) || l < 0 || l > len(op.Lits) {
		x.reportAll([]string{"C05", "C17"}, "%s returned k=%d, l=%d for %d sequences, %d literals", what, k, l, len(op.Seqs), len(op.Lits))
		x.dead = true
		return
	}
	// Walk the sequences the call reports as consumed.
	have := len(x.all)
	litPos := 0
	firstBad := -1
	var badWhy string
	for i, s := range op.Seqs {
		if bad, why := x.malformed(s, have, len(op.Lits)-litPos); bad {
			firstBad, badWhy = i, why
			break
		}
		if i >= k {
			break
		}
		litPos += int(s.LitLen)
		have += int(s.LitLen) + int(s.MatchLen)
		if int64(have)-int64(len(x.all)) > 1<<26 {
			// beyond what the model expands: no verdict
			x.dead = true
			return
		}
	}
	if firstBad >= 0 && firstBad < k {
		// either the malformed sequence was really consumed (C05) or k
		// over-reports what was consumed (C17)
		x.reportAll([]string{"C05", "C17"}, "%s reports %d sequences as consumed although sequence %d is malformed (%s)", what, k, firstBad, badWhy)
		x.dead = true
		return
	}
	// Apply the consumed prefix to the model.
	start := len(x.all)
	lp := 0
	for i := 0; i < k; i++ {
		s := op.Seqs[i]
		x.all = append(x.all, op.Lits[lp:lp+int(s.LitLen)]...)
		lp += int(s.LitLen)
		if s.MatchLen > 0 {
			if int(s.Offset) < int(s.MatchLen) {
				x.overlapMatches++
			}
			if int(s.Offset) == x.cc.WindowSize && x.shrunkMidRead {
				x.matchAtWindow = true
			}
			x.appendMatch(s.MatchLen, s.Offset)
		}
	}
	x.nSeqs += k
	stopAtBad := firstBad >= 0 && firstBad == k
	wellFormedBlock := firstBad < 0
	switch {
	case err == nil:
		if firstBad >= 0 {
			x.report("C05", "%s returned nil although sequence %d is malformed (%s)", what, firstBad, badWhy)
			x.dead = true
			return
		}
		if k != len(op.Seqs) || l != len(op.Lits) {
			x.reportAll([]string{"C17", "C04"}, "%s = (k=%d, l=%d, nil) for a block of %d sequences and %d literals", what, k, l, len(op.Seqs), len(op.Lits))
			x.dead = true
			return
		}
		x.all = append(x.all, op.Lits[lp:]...)
	case stopAtBad && !x.wfault(err) && err != errSpin:
		// rejected: k is its index, l the literals consumed before it
		x.rejected++
		if l != lp {
			x.reportAll([]string{"C05", "C17"}, "%s rejected sequence %d (%v) with l=%d; the %d sequences before it carry %d literal bytes", what, k, err, l, k, lp)
		}
		if k > 0 && x.shrunk {
			x.hostileInShrunk = true
		}
		if k > 0 {
			x.hostileAfterValid = true
		}
	default:
		// Stopped for another reason (space, writer fault): the
		// consumed literals are exactly those of the consumed sequences,
		// unless only the trailing literals were left and part of them
		// was consumed.
		if !(l == lp || (k == len(op.Seqs) && l >= lp)) {
			x.reportAll([]string{"C17", "C05"}, "%s stopped (%v) with k=%d, l=%d; the %d consumed sequences carry %d literal bytes", what, err, k, l, k, lp)
			x.dead = true
			return
		}
		x.all = append(x.all, op.Lits[lp:l]...)
		x.classifyStop(what, op, st, k, l, err, wellFormedBlock || k < firstBad)
	}
	if n != len(x.all)-start {
		x.report("C17", "%s returned n=%d but the call appended %d bytes (k=%d, l=%d, err=%v)", what, n, len(x.all)-start, k, l, err)
		if stopAtBad {
			// what a rejection reports as consumed has to describe what the
			// buffer holds
			x.report("C05", "%s rejected sequence %d (%v) and reports n=%d bytes written, but the %d sequences and %d literal bytes it reports as consumed expand to %d bytes", what, k, err, n, k, l, len(x.all)-start)
		}
	}
	if x.buf != nil && len(x.buf.Data)-st.lenData < len(x.all)-start {
		x.shrinkDuringBlock++
	}
	x.relations(what, st, stopAtBad)
}

// classifyStop judges a WriteBlock that stopped with an error at a sequence (or
// trailing literal run) that is well-formed.
func (x *decExec) classifyStop(what string, op DOp, st bufState, k, l int, err error, itemOK bool) {
	var g int64
	if k < len(op.Seqs) {
		g = int64(op.Seqs[k].LitLen) + int64(op.Seqs[k].MatchLen)
	} else {
		g = int64(len(op.Lits) - l)
	}
	free := int64(x.cc.BufferSize - x.cc.WindowSize)
	if x.buf != nil {
		// DecoderBuffer: only "no room" answers are legal for a
		// well-formed item, and only when there is no room.
		if !isSpaceErr(err) {
			x.reportAll([]string{"C04", "C05"}, "%s: well-formed item %d refused with %v", what, k, err)
			return
		}
		if x.permanentRefusal(err, g) {
			x.reportAll([]string{"C07", "C04"}, "%s refused item %d of %d bytes for ever (%v) although it fits into BufferSize-WindowSize = %d-%d",
				what, k, g, err, x.cc.BufferSize, x.cc.WindowSize)
		}
		return
	}
	switch {
	case x.wfault(err):
		x.faultInBlock++
		if x.wr.shortFault > x.shortFaultSeen {
			x.shortFaultInBlock++
		}
		rest := DOp{Op: "wblock", Seqs: cloneSeqs(op.Seqs[k:]), Lits: cloneBytes(op.Lits[l:])}
		x.retriesPending = append(x.retriesPending, rest)
	case err == errSpin:
	case g > free && isSpaceErr(err) && !strictKnown():
		// Known finding D14: an item larger than BufferSize-WindowSize
		// cannot be written because a sequence is written atomically.
		// Excluded from the acceptance assertion (counted); it still
		// has to end with an error, not a spin.
		x.excludedD14++
		x.oversizeRefused++
	default:
		x.reportAll([]string{"C07", "C04"}, "%s refused a well-formed block at item %d (%d bytes; BufferSize %d, WindowSize %d) with %v",
			what, k, g, x.cc.BufferSize, x.cc.WindowSize, err)
		if !isSpaceErr(err) {
			x.report("C05", "%s: well-formed item %d refused with %v", what, k, err)
		}
	}
}

func (x *decExec) doRead(op DOp) {
	if x.buf == nil || op.Len < 0 || op.Len > 1<<20 {
		return
	}
	st := x.before()
	p := make([]byte, op.Len)
	var n int
	var err error
	if x.guard("Read", func() { n, err = x.buf.Read(p) }) {
		return
	}
	want := minInt(op.Len, len(x.all)-x.cursor)
	if n != want || err != nil {
		x.report("C04", "Read(%d) = (%d, %v); want (%d, nil) with %d unread bytes", op.Len, n, err, want, len(x.all)-x.cursor)
		if n < 0 || n > len(x.all)-x.cursor {
			x.dead = true
			return
		}
	}
	if !bytesEqual(p[:n], x.all[x.cursor:x.cursor+n]) {
		x.report("C04", "Read returned bytes that differ from the reference expansion at stream offset %d", x.cursor)
	}
	x.cursor += n
	x.relations("Read", st, false)
}

func (x *decExec) doWriteTo(op DOp) {
	if x.buf == nil {
		return
	}
	st := x.before()
	w := &scriptWriter{}
	if op.W != nil {
		w.events = []WEvent{*op.W}
	}
	var n int64
	var err error
	if x.guard("WriteTo", func() { n, err = x.buf.WriteTo(w) }) {
		return
	}
	if w.calls != 1 {
		x.report("C04", "WriteTo called the writer %d times", w.calls)
	}
	if !bytesEqual(w.lastOffer, x.all[x.cursor:]) {
		x.report("C04", "WriteTo offered %d bytes to the writer; the unread part of the reference expansion has %d bytes (stream offset %d)",
			len(w.lastOffer), len(x.all)-x.cursor, x.cursor)
		x.report("C18", "WriteTo offered bytes that are not the unread part of the reference expansion")
	}
	if n != int64(len(w.got)) {
		x.report("C17", "WriteTo returned n=%d, the writer accepted %d", n, len(w.got))
	}
	if (w.faults > 0) != (err != nil) || (err != nil && err != w.lastFault) {
		x.report("C18", "WriteTo returned %v, the writer returned fault=%v", err, w.faults > 0)
	}
	x.cursor += len(w.got)
	x.faultsTotal += w.faults
	x.relations("WriteTo", st, false)
}

func (x *decExec) doFlush() {
	if x.dec == nil {
		return
	}
	var err error
	if x.guard("Flush", func() { err = x.dec.Flush() }) {
		return
	}
	x.lastErr, x.haveErr = err, true
	switch {
	case err == nil:
		if len(x.wr.got) != len(x.all) {
			// x.all follows the counts the calls reported: their sum is not
			// the number of bytes that went to the output stream
			x.report("C17", "after a successful Flush the writer holds %d bytes, but the calls since Init/Reset reported %d bytes as written", len(x.wr.got), len(x.all))
		}
		if !bytesEqual(x.wr.got, x.all) {
			x.report("C04", "after a successful Flush the writer holds %d bytes, the reference expansion has %d", len(x.wr.got), len(x.all))
			x.report("C18", "after a successful Flush the writer holds %d bytes, the reference expansion has %d", len(x.wr.got), len(x.all))
			x.dead = true
		}
	case x.wfault(err):
		x.retriesPending = append(x.retriesPending, DOp{Op: "flush"})
	case err == errSpin:
	default:
		x.report("C04", "Flush returned %v", err)
		x.report("C18", "Flush returned %v (not the writer's error)", err)
	}
}

func (x *decExec) doReset() {
	if x.buf != nil {
		st := x.before()
		if x.guard("Reset", func() { x.buf.Reset() }) {
			return
		}
		x.all = x.all[:0]
		x.base = 0
		x.base = 0
		x.cursor = 0
		x.relations("Reset", st, false)
		if len(x.buf.Data) != 0 || x.buf.R != 0 {
			x.report("C04", "after Reset: len(Data)=%d, R=%d", len(x.buf.Data), x.buf.R)
		}
		if x.buf.Off != 0 {
			x.report("C17", "after Reset: Off=%d, nothing has been written since", x.buf.Off)
		}
		return
	}
	// Decoder.Reset takes a new writer; unflushed data is dropped with the
	// old stream.
	old := x.wr
	nw := &scriptWriter{events: old.events, lens: &x.callLens}
	x.faultsTotal += old.faults
	if x.guard("Decoder.Reset", func() { x.dec.Reset(x.asWriter(nw)) }) {
		return
	}
	x.wr = nw
	x.all = x.all[:0]
	x.base = 0
	x.retriesPending = nil
}

// doReinit calls Init again on a used DecoderBuffer or Decoder: like Reset,
// with a configuration given anew (the same one or another accepted one).
func (x *decExec) doReinit(op DOp) {
	if x.c.Direct && op.Cfg == nil {
		// the configuration of the case was never given to Init (with
		// defaults completed it may not even be a legal one): a plain Reset
		x.doReset()
		return
	}
	cfg := x.c.Cfg
	if op.Cfg != nil {
		cfg = *op.Cfg
	}
	lcfg := lz.DecoderConfig{WindowSize: cfg.WindowSize, BufferSize: cfg.BufferSize}
	if x.buf == nil {
		old := x.wr
		nw := &scriptWriter{events: old.events, lens: &x.callLens}
		x.faultsTotal += old.faults
		var err error
		if x.guard("Decoder.Init", func() { err = x.dec.Init(x.asWriter(nw), lcfg) }) {
			return
		}
		if err != nil {
			// a configuration Init refuses leaves the decoder as it was
			return
		}
		x.wr = nw
		x.cc = cfg.completed()
		x.all = x.all[:0]
		x.base = 0
		x.base = 0
		x.retriesPending = nil
		return
	}
	st := x.before()
	var err error
	if x.guard("Init", func() { err = x.buf.Init(lcfg) }) {
		return
	}
	if err != nil {
		if op.Cfg == nil {
			x.report("C04", "Init with the configuration accepted before returned %v", err)
			x.dead = true
		}
		return
	}
	x.cc = cfg.completed()
	x.all = x.all[:0]
	x.base = 0
	x.cursor = 0
	x.relations("Reset", st, false)
	if len(x.buf.Data) != 0 || x.buf.R != 0 {
		x.report("C04", "after Init: len(Data)=%d, R=%d", len(x.buf.Data), x.buf.R)
	}
}

func (x *decExec) doByteAtEnd(op DOp) {
	if x.buf == nil {
		return
	}
	var c byte
	if x.guard("ByteAtEnd", func() { c = x.buf.ByteAtEnd(op.Len) }) {
		return
	}
	if 1 <= op.Len && op.Len <= minInt(x.cc.WindowSize, len(x.all)) {
		if want := x.all[len(x.all)-op.Len]; c != want {
			x.report("C04", "ByteAtEnd(%d) = %#x; the byte %d back in the stream is %#x", op.Len, c, op.Len, want)
		}
	}
}

// finish plays the documented caller to the end: Flush until it succeeds (the
// fault script is finite), then the writer must hold the whole expansion.
func (x *decExec) finish() {
	if x.dec == nil || x.dead {
		return
	}
	x.drain()
	if x.dead {
		return
	}
	x.apply(DOp{Op: "flush"})
	x.drain()
	if x.dead {
		return
	}
	if len(x.wr.got) != len(x.all) {
		x.report("C17", "after the final successful Flush the writer holds %d bytes, but the calls since Init/Reset reported %d bytes as written", len(x.wr.got), len(x.all))
	}
	if !bytesEqual(x.wr.got, x.all) {
		x.report("C18", "after the final successful Flush the writer holds %d bytes, the reference expansion has %d", len(x.wr.got), len(x.all))
		x.report("C04", "after the final successful Flush the writer holds %d bytes, the reference expansion has %d", len(x.wr.got), len(x.all))
	}
	x.faultsTotal += x.wr.faults
	x.shortFaults += x.wr.shortFault
}
