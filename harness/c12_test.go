package harness

import (
	"testing"
)

// longestPrev is the brute-force longest previous match at position p of fed:
// the best common prefix with any earlier position that is still buffered,
// clipped at the block end.
func longestPrev(fed []byte, off, p, blockEnd int) int {
	best := 0
	limit := blockEnd - p
	for s := off; s < p; s++ {
		c := 0
		for c < limit && fed[s+c] == fed[p+c] {
			c++
		}
		if c > best {
			best = c
		}
	}
	return best
}

var propC12 = parserProp{
	prop:   "C12",
	maxBuf: 700,
	opts: func(kind string) histOpts {
		o := defaultHistOpts()
		o.maxText = 1500
		o.ntl = 35
		o.maxOps = 20
		o.ntlPair = 8
		o.suffixPct = 30
		return o
	},
	tweak: nil,
	setup: func(x *parserExec) { x.keepBlocks = true },
	after: func(x *parserExec) {
		minM := x.cc.MinMatchLen
		for bi, b := range x.blocks {
			if b.N == 0 {
				continue
			}
			extent := b.W + minInt(x.cc.BlockSize, b.End-b.W)
			p := b.W
			for si, s := range b.Seqs {
				// literal positions in front of the match
				if x.cc.BufferSize <= x.cc.WindowSize {
					for q := p; q < p+int(s.LitLen); q++ {
						if l := longestPrev(b.Fed, b.Off, q, extent); l >= minM {
							x.report("C12", "block %d: literal at stream position %d although an earlier buffered position offers a match of length %d >= MinMatchLen %d (buffer starts at %d, block [%d,%d))",
								bi, q, l, minM, b.Off, b.W, extent)
							return
						}
					}
				}
				p += int(s.LitLen)
				if l := longestPrev(b.Fed, b.Off, p, extent); int(s.MatchLen) != l {
					x.report("C12", "block %d seq %d: match at stream position %d has length %d (offset %d), the longest match against the buffered data [%d,%d) clipped at the block end %d has length %d",
						bi, si, p, s.MatchLen, s.Offset, b.Off, p, extent, l)
					return
				}
				p += int(s.MatchLen)
				x.c12Matches++
				if b.Builds > 1 {
					x.c12AfterRebuild++
				}
			}
			if x.cc.BufferSize <= x.cc.WindowSize {
				for q := p; q < b.W+b.N; q++ {
					if l := longestPrev(b.Fed, b.Off, q, extent); l >= minM {
						x.report("C12", "block %d: trailing literal at stream position %d although an earlier buffered position offers a match of length %d >= MinMatchLen %d (buffer starts at %d, block [%d,%d))",
							bi, q, l, minM, b.Off, b.W, extent)
						return
					}
				}
			}
			if bi > 0 {
				pb := x.blocks[bi-1]
				if pb.Flags != 0 && len(pb.Seqs) > 0 && pb.Builds == b.Builds &&
					pb.W+pb.N < pb.W+minInt(x.cc.BlockSize, pb.End-pb.W) && &pb.Fed[0] == &b.Fed[0] {
					x.c12AfterCut++
				}
			}
		}
	},
	classify: func(x *parserExec) ([]string, bool) {
		var cl []string
		if x.c12AfterRebuild > 0 {
			cl = append(cl, "match-after-second-or-later-array-build")
		}
		if x.c12AfterCut > 0 {
			cl = append(cl, "block-after-NoTrailingLiterals-cut")
		}
		if x.cc.BufferSize <= x.cc.WindowSize {
			cl = append(cl, "BufferSize<=WindowSize")
		}
		if x.cc.BufferSize > 64 {
			cl = append(cl, "buffer>64")
		}
		if x.cc.BufferSize > 256 {
			cl = append(cl, "buffer>256")
		}
		return cl, x.c12AfterRebuild > 0 || x.c12AfterCut > 0
	},
}

func TestC12(t *testing.T) { propC12.run(t, []string{"GSAP"}) }

func init() { replayers["C12"] = propC12.replayer() }
