// Package harness holds the property-based verification harness for
// github.com/ulikunitz/lz: reference models (independent of the library's
// internals), generators, case executors and the per-property checks.
package harness

import (
	"errors"
	"fmt"

	"github.com/ulikunitz/lz"
)

// errConfigRejected marks a stored case whose configuration NewParser no longer
// accepts.
var errConfigRejected = errors.New("configuration rejected by NewParser")

// Errors of the reference expander.
var (
	errRefLitLen = errors.New("ref: LitLen exceeds remaining literals")
	errRefOffset = errors.New("ref: offset zero with non-zero match length, or offset before start of stream")
	errRefLimit  = errors.New("ref: expansion exceeds limit")
)

// ExpandBlock is the textbook LZ77 expansion of one block. hist is the whole
// stream in front of the block (the reference decoder has an unlimited window;
// window limits are checked separately). The output of the block (without
// hist) is returned. The expansion stops with errRefLimit as soon as more than
// limit bytes would be produced, so a hostile block cannot make the harness
// allocate without bound.
func ExpandBlock(hist []byte, seqs []lz.Seq, lits []byte, limit int) ([]byte, error) {
	out := make([]byte, 0, 64)
	for i, s := range seqs {
		if int64(s.LitLen) > int64(len(lits)) {
			return out, fmt.Errorf("seq %d: %w", i, errRefLitLen)
		}
		if int64(len(out))+int64(s.LitLen)+int64(s.MatchLen) > int64(limit) {
			return out, fmt.Errorf("seq %d: %w", i, errRefLimit)
		}
		out = append(out, lits[:s.LitLen]...)
		lits = lits[s.LitLen:]
		if s.MatchLen == 0 {
			continue
		}
		total := int64(len(hist)) + int64(len(out))
		if s.Offset == 0 || int64(s.Offset) > total {
			return out, fmt.Errorf("seq %d: %w", i, errRefOffset)
		}
		o := int(s.Offset)
		for k := uint32(0); k < s.MatchLen; k++ {
			p := len(hist) + len(out) - o
			var c byte
			if p < len(hist) {
				c = hist[p]
			} else {
				c = out[p-len(hist)]
			}
			out = append(out, c)
		}
	}
	if len(out)+len(lits) > limit {
		return out, fmt.Errorf("trailing literals: %w", errRefLimit)
	}
	out = append(out, lits...)
	return out, nil
}

// commonPrefix returns the length of the longest common prefix of a and b,
// byte by byte.
func commonPrefix(a, b []byte) int {
	n := 0
	for n < len(a) && n < len(b) && a[n] == b[n] {
		n++
	}
	return n
}

func minInt(a, b int) int {
	if a < b {
		return a
	}
	return b
}

func maxInt(a, b int) int {
	if a > b {
		return a
	}
	return b
}

func cloneBytes(p []byte) []byte {
	if p == nil {
		return nil
	}
	q := make([]byte, len(p))
	copy(q, p)
	return q
}

func cloneSeqs(s []lz.Seq) []lz.Seq {
	q := make([]lz.Seq, len(s))
	copy(q, s)
	return q
}

func seqsEqual(a, b []lz.Seq) bool {
	if len(a) != len(b) {
		return false
	}
	for i := range a {
		if a[i] != b[i] {
			return false
		}
	}
	return true
}

func bytesEqual(a, b []byte) bool {
	if len(a) != len(b) {
		return false
	}
	for i := range a {
		if a[i] != b[i] {
			return false
		}
	}
	return true
}
