package harness

import (
	"testing"

	"pgregory.net/rapid"
)

// Large geometries: buffers of tens of kilobytes up to the 8 MiB default,
// default hash tables, streams of up to a few hundred kilobytes. They reach
// what the small cases cannot: the 32 KiB chunking of ReadFrom, buffer growth
// by doubling, positions beyond 64 Ki, the default BlockSize of 128 KiB.

func genLargeCfg(t *rapid.T, kind string) PCfg {
	c := PCfg{Kind: kind}
	sa := kind == "GSAP" || kind == "OSAP"
	switch weighted(t, "bufKind", 3, 4, 2) {
	case 0:
		hi := 150_000
		if sa {
			hi = 50_000
		}
		c.BufferSize = rapid.IntRange(33_000, hi).Draw(t, "buf")
	case 1:
		// (a few bytes above a power of two: the array of the buffer is
		// still doubling when the buffer size is reached)
		c.BufferSize = rapid.SampledFrom([]int{65539, 65541, 65543, 65544, 131072 + 5, 131072 + 7, 65540, 65542, 131072 + 3,
			32767, 32768, 32769, 65535, 65536, 65537, 40_000}).Draw(t, "bufPow")
		if sa && c.BufferSize > 40_000 {
			c.BufferSize = 32768 + c.BufferSize%3
		}
	default:
		c.BufferSize = 0
	}
	switch weighted(t, "winKind", 3, 2, 2, 2, 1) {
	case 0:
		c.WindowSize = 0
	case 1:
		c.WindowSize = rapid.SampledFrom([]int{1024, 4096, 32768, 65535}).Draw(t, "win")
	case 2:
		c.WindowSize = c.BufferSize
	case 3:
		c.WindowSize = 2 * c.BufferSize
	default:
		c.WindowSize = rapid.IntRange(1, 300).Draw(t, "winSmall")
	}
	if sa && c.BufferSize == 0 {
		// the default buffer is the window: keep the sorts affordable
		c.BufferSize = 40_000
	}
	eb := c.BufferSize
	if eb == 0 {
		eb = c.WindowSize
		if eb == 0 {
			eb = 8 * miB
		}
	}
	switch weighted(t, "shrKind", 3, 2, 2, 2) {
	case 0:
		c.ShrinkSize = 0
	case 1:
		c.ShrinkSize = minInt(1024, eb-1)
	case 2:
		c.ShrinkSize = eb / 2
	default:
		// ShrinkSize close to BufferSize is covered by the small cases;
		// here a refill of one byte per 2 MiB hash table shift (or per
		// suffix sort of the whole buffer) is legal but takes for ever.
		c.ShrinkSize = eb * 3 / 4
		if sa {
			c.ShrinkSize = eb / 4
		}
	}
	c.BlockSize = rapid.SampledFrom([]int{0, 4096, 65535, 65536, 131072, 1000, 33_000, 131073, 200_000, 262144, 1 << 20}).Draw(t, "blk")
	if !sa && rapid.IntRange(0, 4).Draw(t, "bigBlocks") < 2 {
		// blocks beyond the default 128 KiB need a buffer that holds them
		c.BlockSize = rapid.SampledFrom([]int{131072, 131073, 200_000, 262144, 1 << 20, 0}).Draw(t, "blkBig")
		c.BufferSize = rapid.SampledFrom([]int{0, 0, 300_000, 524288, 1 << 20}).Draw(t, "bufBig")
		if c.BufferSize == 0 && c.WindowSize != 0 && c.WindowSize < 300_000 {
			c.BufferSize = 400_000
		}
		c.ShrinkSize = rapid.SampledFrom([]int{0, 1024, 100_000}).Draw(t, "shrBig")
	}
	if !sa && rapid.IntRange(0, 7).Draw(t, "giantBlocks") == 0 {
		// blocks of several MiB (genLargeHistory then feeds a stream with
		// repetitions that are longer than a MiB)
		c.BlockSize = rapid.SampledFrom([]int{2 * miB, 4 * miB, 3*miB + 1}).Draw(t, "blkGiant")
		c.BufferSize = rapid.SampledFrom([]int{0, 6 * miB}).Draw(t, "bufGiant")
		c.WindowSize = rapid.SampledFrom([]int{0, 0, 65536, 8 * miB}).Draw(t, "winGiant")
		c.ShrinkSize = rapid.SampledFrom([]int{0, 1024}).Draw(t, "shrGiant")
	}
	switch kind {
	case "HP", "BHP", "BUP":
		c.InputLen = rapid.SampledFrom([]int{0, 3, 4, 6, 8, 5, 7}).Draw(t, "inputLen")
		c.HashBits = rapid.SampledFrom([]int{0, 10, 14, 16}).Draw(t, "hashBits")
		if kind == "BUP" {
			if c.HashBits > 14 {
				c.HashBits = 12
			}
			c.BucketSize = rapid.SampledFrom([]int{0, 2, 10, 16}).Draw(t, "bucket")
		}
	case "DHP", "BDHP":
		c.InputLen1 = rapid.SampledFrom([]int{0, 3, 4}).Draw(t, "il1")
		c.InputLen2 = rapid.SampledFrom([]int{0, 6, 8}).Draw(t, "il2")
		c.HashBits1 = rapid.SampledFrom([]int{0, 12, 15}).Draw(t, "hb1")
		c.HashBits2 = rapid.SampledFrom([]int{0, 13, 16}).Draw(t, "hb2")
	case "GSAP":
		c.MinMatchLen = rapid.SampledFrom([]int{0, 2, 3, 5}).Draw(t, "minMatch")
		if c.WindowSize != 0 && c.WindowSize < 5 {
			c.WindowSize = 5
		}
	case "OSAP":
		c.MinMatchLen = rapid.SampledFrom([]int{0, 2, 3, 5, 5, 8}).Draw(t, "minMatch")
		c.MaxMatchLen = rapid.SampledFrom([]int{0, 18, 273, 5}).Draw(t, "maxMatch")
		if c.MaxMatchLen != 0 && c.MaxMatchLen < maxInt(c.MinMatchLen, 3) {
			c.MaxMatchLen = maxInt(c.MinMatchLen, 3)
		}
	}
	return c
}

// largeStream builds a long stream as a deterministic function of a few draws:
// a generated base text repeated with point mutations, interleaved with
// stretches of pseudo-random bytes (a linear congruential sequence seeded by a
// draw - no randomness outside of rapid).
func largeStream(t *rapid.T, total int) []byte { return largeStreamOpt(t, total, 3) }

// incompressibleOf: one in (incompressibleOf+1) streams is a short
// compressible head followed by pseudo-random bytes.
func largeStreamOpt(t *rapid.T, total, incompressibleOf int) []byte {
	base := genText(t, "base", 3000)
	if len(base) == 0 {
		base = []byte{0}
	}
	seed := uint32(rapid.IntRange(0, 1<<30).Draw(t, "lcgSeed"))
	if rapid.IntRange(0, incompressibleOf).Draw(t, "incompressible") == 0 {
		// a short compressible head, then pseudo-random bytes over all 256
		// values: hundreds of kilobytes without a match for the parsers
		// that hash 4 or more bytes, literal-only blocks, long tails behind
		// the last match of a block
		out := make([]byte, 0, total)
		if seed&1 == 0 {
			head := minInt(len(base), 16+int(seed)%48)
			out = append(out, base[:head]...)
			out = append(out, base[:head]...)
		}
		x := uint64(seed)<<16 | 1
		for len(out) < total {
			x += 0x9e3779b97f4a7c15
			z := x
			z = (z ^ (z >> 30)) * 0xbf58476d1ce4e5b9
			z = (z ^ (z >> 27)) * 0x94d049bb133111eb
			z ^= z >> 31
			for k := 0; k < 8 && len(out) < total; k++ {
				out = append(out, byte(z>>(8*k)))
			}
		}
		return out[:total]
	}
	noise := rapid.IntRange(0, 3).Draw(t, "noiseEvery")
	mut := rapid.IntRange(0, 3).Draw(t, "mutEvery")
	out := make([]byte, 0, total)
	rep := 0
	for len(out) < total {
		start := len(out)
		out = append(out, base...)
		rep++
		if mut > 0 && rep%mut == 0 {
			seed = seed*1664525 + 1013904223
			out[start+int(seed>>8)%len(base)] ^= byte(seed >> 24)
		}
		if noise > 0 && rep%(noise+1) == 0 {
			n := 50 + int(seed>>20)%400
			for i := 0; i < n; i++ {
				seed = seed*1664525 + 1013904223
				out = append(out, byte(seed>>24))
			}
		}
	}
	return out[:total]
}

// giantStream: 2.5 to 4.5 MiB made of a few stretches, each a short word (1 to
// 9 bytes, or a generated text) repeated for hundreds of kilobytes up to 3 MiB -
// matches whose source overlaps them and that are longer than a MiB - with
// single changed bytes in between.
func giantStream(t *rapid.T) []byte {
	total := 2*miB + miB/2 + (miB/4)*rapid.IntRange(0, 8).Draw(t, "giantTotal")
	out := make([]byte, 0, total)
	for len(out) < total {
		var word []byte
		if rapid.IntRange(0, 4).Draw(t, "giantLongWord") == 0 {
			word = genText(t, "giantWord", 3000)
		} else {
			n := rapid.IntRange(1, 9).Draw(t, "giantPeriod")
			for i := 0; i < n; i++ {
				word = append(word, rapid.SampledFrom([]byte{'a', 'b', 'c', 0, 0xff}).Draw(t, "giantLetter"))
			}
		}
		if len(word) == 0 {
			word = []byte{'z'}
		}
		n := rapid.SampledFrom([]int{3 * miB, miB + miB/2, 2 * miB, miB + 100, 300_000, 5 * miB}).Draw(t, "giantStretch")
		for k := 0; k < n && len(out) < total; k++ {
			out = append(out, word[k%len(word)])
		}
		if len(out) < total {
			out = append(out, rapid.SampledFrom([]byte{'x', 'a', 0}).Draw(t, "giantBreak"))
		}
	}
	return out
}

// genLargeHistory delivers a long stream through Write and ReadFrom (scripted
// readers with large and small chunks), parsing and shrinking in between.
func genLargeHistory(t *rapid.T, x *parserExec, parseNil bool) {
	cc := x.cc
	sa := cc.Kind == "GSAP" || cc.Kind == "OSAP"
	// rapid favours small values: count down from the largest size
	total := 400_000 - 20_000*rapid.IntRange(0, 19).Draw(t, "total")
	if sa {
		total = 120_000 - 5_000*rapid.IntRange(0, 19).Draw(t, "totalSA")
	}
	var stream []byte
	if cc.BlockSize > miB && cc.BufferSize >= 4*miB {
		stream = giantStream(t)
	} else if cc.BlockSize > 131072 && !sa {
		// blocks beyond 128 KiB: hundreds of kilobytes without a match in
		// one block in half of the cases
		stream = largeStreamOpt(t, total, 1)
	} else {
		stream = largeStream(t, total)
	}
	pos := 0
	for steps := 0; pos < len(stream) && steps < 60 && !x.dead; steps++ {
		room := cc.BufferSize - x.buffered()
		n := len(stream) - pos
		wAll := 3
		if cc.BlockSize > 131072 || cc.BlockSize == 131072 {
			wAll = 9 // blocks of 128 KiB and more only occur with that much buffered
		}
		switch weighted(t, "chunk", wAll, 2, 2) {
		case 0: // everything that fits and a little more
			n = minInt(n, room+rapid.IntRange(0, 2).Draw(t, "over"))
		case 1:
			n = minInt(n, 1+rapid.IntRange(0, 70_000).Draw(t, "chunkLen"))
		default:
			n = minInt(n, 1+rapid.IntRange(0, 5_000).Draw(t, "chunkSmall"))
		}
		if n < 0 {
			n = 0 // a buffer that holds more than BufferSize (reported by C15) leaves no room
		}
		before := len(x.fed)
		nearPow := cc.BufferSize&(cc.BufferSize-8) < 8 || (cc.BufferSize-1)&(cc.BufferSize-9) < 8 // a few bytes above a power of two
		if rapid.Bool().Draw(t, "viaReader") || (nearPow && rapid.Bool().Draw(t, "viaReaderNearPow")) {
			rs := ReaderScript{Data: stream[pos : pos+n]}
			ne := rapid.IntRange(0, 4).Draw(t, "nev")
			for i := 0; i < ne; i++ {
				rs.Events = append(rs.Events, REvent{N: rapid.SampledFrom([]int{1, 100, 32767, 32768, 32769, 50_000}).Draw(t, "evN")})
			}
			x.step(POp{Op: "readfrom", R: &rs})
		} else {
			x.step(POp{Op: "write", Data: stream[pos : pos+n]})
		}
		pos += len(x.fed) - before
		k := 1 + rapid.IntRange(0, 6).Draw(t, "nparse")
		if rapid.IntRange(0, 2).Draw(t, "drain") > 0 {
			k = 1 << 20
		}
		fl := genFlags(t, histOpts{ntl: 35})
		skipEvery := 0
		if parseNil {
			// 0: no skipping, 1: skip every block, 2/3: every 2nd/3rd
			skipEvery = rapid.SampledFrom([]int{0, 1, 1, 2, 3}).Draw(t, "skipEvery")
		}
		for j := 1; k > 0 && x.unparsed() > 0 && !x.dead; k, j = k-1, j+1 {
			if skipEvery > 0 && j%skipEvery == 0 {
				x.step(POp{Op: "parsenil"})
			} else {
				x.step(POp{Op: "parse", Flags: fl})
			}
		}
		if parseNil && x.unparsed() == 0 && rapid.Bool().Draw(t, "extraSkip") {
			// on a drained buffer
			x.step(POp{Op: "parsenil"})
		}
		if x.unparsed() == 0 || rapid.IntRange(0, 2).Draw(t, "shrink") == 0 {
			x.step(POp{Op: "shrink"})
			if cc.BufferSize-x.buffered() == 0 && x.unparsed() == 0 {
				break
			}
		}
		if rapid.IntRange(0, 5).Draw(t, "readAt") == 0 {
			x.step(POp{Op: "readat", Off: genOffset(t, x), Len: rapid.IntRange(0, 40_000).Draw(t, "raLen")})
		}
	}
}

// largeProp runs the large histories for one property tag.
func largeProp(t *testing.T, prop string) {
	st := statsFor(prop)
	kinds := Kinds
	if prop == "C15" {
		kinds = append([]string{"BUF"}, Kinds...)
	}
	if prop == "C19" {
		kinds = []string{"HP", "BHP", "DHP", "BDHP", "BUP", "GSAP"}
	}
	for _, kind := range kindsFromEnv(kinds) {
		kind := kind
		t.Run(kind, func(t *testing.T) {
			rapid.Check(t, func(t *rapid.T) {
				decorrelate(t, kind)
				if (kind == "GSAP" || kind == "OSAP") && rapid.IntRange(0, 2).Draw(t, "thin") > 0 {
					// a large case of the suffix array parsers costs ten
					// times one of the hash parsers: a third of the count
					st.class("large:skipped-for-cost:" + kind)
					return
				}
				cfg := genLargeCfg(t, kind)
				x, err := newParserExec(cfg)
				if err != nil {
					st.class("config-rejected:" + kind)
					return
				}
				beginCase(prop, "large-"+kind, func() any { return x.Case() })
				defer endCase() // also when rapid abandons the case half-way (fuzzing: input used up)
				genLargeHistory(t, x, prop == "C14" || prop == "C16")
				endCase()
				if msg, bad := x.first(prop); bad {
					recordFailure(prop, "large-"+kind, x.Case(), msg)
					t.Fatalf("%s violated (large %s): %s", prop, kind, msg)
				}
				if x.dead {
					st.abort("large-" + kind)
					return
				}
				cl := []string{"large", "kind:" + kind}
				if x.fills > 0 {
					cl = append(cl, "large:refilled")
				}
				if x.shrinkPos > 0 {
					cl = append(cl, "large:shrink>0")
				}
				if len(x.fed) > 65536 {
					cl = append(cl, "large:stream>64KiB")
				}
				if x.nMatches > 0 {
					cl = append(cl, "large:has-match")
				}
				// samples of large cases would bloat the evidence file: only a summary is kept
				h := hashJSON(x.Case())
				st.eval(cl, x.nMatches > 0 && len(x.fed) > 32768, h, "large-"+kind, func() any {
					return map[string]any{"cfg": x.cfg, "ops": len(x.log), "stream_bytes": len(x.fed), "blocks": x.nBlocks, "matches": x.nMatches}
				})
			})
		})
	}
}

func TestC01Large(t *testing.T) { largeProp(t, "C01") }
func TestC02Large(t *testing.T) { largeProp(t, "C02") }
func TestC03Large(t *testing.T) { largeProp(t, "C03") }
func TestC14Large(t *testing.T) { largeProp(t, "C14") }
func TestC15Large(t *testing.T) { largeProp(t, "C15") }
func TestC16Large(t *testing.T) { largeProp(t, "C16") }
func TestC19Large(t *testing.T) { largeProp(t, "C19") }

// TestC08Large: WrappedParser over large geometries (several 32 KiB read chunks
// per refill, inputs of several buffer fills).
func TestC08Large(t *testing.T) {
	st := statsFor("C08")
	for _, kind := range kindsFromEnv(Kinds) {
		kind := kind
		t.Run(kind, func(t *testing.T) {
			rapid.Check(t, func(t *rapid.T) {
				decorrelate(t, kind)
				cfg := genLargeCfg(t, kind)
				sa := kind == "GSAP" || kind == "OSAP"
				total := 300_000 - 15_000*rapid.IntRange(0, 19).Draw(t, "total")
				if sa {
					total = 100_000 - 5_000*rapid.IntRange(0, 19).Draw(t, "totalSA")
				}
				c := WrapCase{Cfg: cfg, Tail: 2}
				c.R.Data = largeStream(t, total)
				ne := rapid.IntRange(0, 8).Draw(t, "nev")
				for i := 0; i < ne; i++ {
					ev := REvent{N: rapid.SampledFrom([]int{1, 100, 32767, 32768, 32769, 50_000, 0}).Draw(t, "evN")}
					switch rapid.IntRange(0, 5).Draw(t, "evErr") {
					case 0:
						ev.Err = rapid.SampledFrom([]string{"E", "U", "P"}).Draw(t, "evErrKind")
					case 1:
						ev.Err = "EOF"
					}
					c.R.Events = append(c.R.Events, ev)
				}
				c.Flags = []int{genFlags(t, histOpts{ntl: 25}), 0}
				beginCase("C08", "large-"+kind, func() any { return map[string]any{"cfg": cfg, "events": c.R.Events, "len": total} })
				defer endCase() // also when rapid abandons the case half-way (fuzzing: input used up)
				msg, bad, x, err := checkWrap("C08", c, true)
				endCase()
				if err != nil {
					st.class("config-rejected:" + kind)
					return
				}
				if bad {
					recordFailure("C08", "large-"+kind, c, msg)
					t.Fatalf("C08 violated (large wrap %s): %s", kind, msg)
				}
				if x.dead {
					st.abort("large-" + kind)
					return
				}
				cl := []string{"large", "kind:" + kind}
				if x.refills {
					cl = append(cl, "wrap:input>BufferSize")
				}
				if x.faultsWithData > 0 {
					cl = append(cl, "wrap:fault-with-data")
				}
				st.eval(cl, x.refills && len(c.R.Events) > 0, hashBytes(c.R.Data, []byte(cfg.String())), "large-"+kind, func() any {
					return map[string]any{"cfg": cfg, "events": c.R.Events, "stream_bytes": total}
				})
			})
		})
	}
}
