package harness

import (
	"fmt"
	"testing"

	"github.com/ulikunitz/lz"
)

// optimalCost is the independent dynamic program of C11: the minimum total
// cost of an LZ77 parse of fed[w:w+n] with match lengths in [minM, maxM],
// offsets <= win and sources in [off, position). Literal cost 9 bits, match
// cost lz.XZCost (the configured cost function).
func optimalCost(fed []byte, off, w, n, win, minM, maxM int) uint64 {
	const inf = ^uint64(0) >> 1
	d := make([]uint64, n+1)
	for i := 1; i <= n; i++ {
		d[i] = inf
	}
	lit := lz.XZCost(1, 0)
	for i := 0; i < n; i++ {
		if d[i] == inf {
			continue
		}
		if c := d[i] + lit; c < d[i+1] {
			d[i+1] = c
		}
		p := w + i
		lo := p - win
		if lo < off {
			lo = off
		}
		limit := n - i
		if limit > maxM {
			limit = maxM
		}
		if limit < minM {
			continue
		}
		for s := p - 1; s >= lo; s-- {
			cp := 0
			for cp < limit && fed[s+cp] == fed[p+cp] {
				cp++
			}
			for m := minM; m <= cp; m++ {
				if c := d[i] + lz.XZCost(uint32(m), uint32(p-s)); c < d[i+m] {
					d[i+m] = c
				}
			}
		}
	}
	return d[n]
}

func blockCost(b blockRec) uint64 {
	c := uint64(len(b.Lits)) * lz.XZCost(1, 0)
	for _, s := range b.Seqs {
		c += lz.XZCost(s.MatchLen, s.Offset)
	}
	return c
}

var propC11 = parserProp{
	prop:   "C11",
	maxBuf: 120,
	opts: func(kind string) histOpts {
		o := defaultHistOpts()
		o.ntl = 10
		o.maxText = 300
		o.suffixPct = 15
		o.readFrom = 1
		o.resetDat = 1
		return o
	},
	setup: func(x *parserExec) { x.keepBlocks = true },
	after: func(x *parserExec) {
		if lz.XZCost(1, 0) != 9 || lz.XZCost(5, 0) != 45 {
			x.report("C11", "XZCost(1,0)=%d, XZCost(5,0)=%d; a literal costs 9 bits", lz.XZCost(1, 0), lz.XZCost(5, 0))
		}
		for i, b := range x.blocks {
			if b.Flags != 0 || b.N == 0 {
				continue
			}
			opt := optimalCost(b.Fed, b.Off, b.W, b.N, x.cc.WindowSize, x.cc.MinMatchLen, x.cc.MaxMatchLen)
			got := blockCost(b)
			x.c11Blocks++
			if len(b.Seqs) >= 2 {
				for _, s := range b.Seqs[1:] {
					if s.LitLen > 0 {
						x.c11MLM++
						break
					}
				}
			}
			if len(b.Seqs) >= 2 || (len(b.Seqs) == 1 && len(b.Lits) > 0) {
				x.c11Mixed++
			}
			if b.Builds > 1 && len(b.Seqs) > 0 {
				x.c11AfterRebuild++
			}
			if got != opt {
				x.report("C11", "block %d at stream position %d (n=%d, buffer starts at %d): cost %d bits, the optimum is %d bits (%s)",
					i, b.W, b.N, b.Off, got, opt, describeSeqs(b))
				return
			}
		}
	},
	classify: func(x *parserExec) ([]string, bool) {
		var cl []string
		if x.c11MLM > 0 {
			cl = append(cl, "block-with-match-literal-match")
		}
		if x.c11Mixed > 0 {
			cl = append(cl, "block-neither-all-literals-nor-one-match")
		}
		if x.c11AfterRebuild > 0 {
			cl = append(cl, "matches-after-edges-rebuilt")
		}
		if x.shrinkPos > 0 {
			cl = append(cl, "shrink>0")
		}
		return cl, x.c11Mixed > 0
	},
}

func describeSeqs(b blockRec) string {
	s := fmt.Sprintf("%d literals,", len(b.Lits))
	for _, q := range b.Seqs {
		s += fmt.Sprintf(" {lit %d, m %d, o %d}", q.LitLen, q.MatchLen, q.Offset)
	}
	return s
}

func TestC11(t *testing.T) { propC11.run(t, []string{"OSAP"}) }

func init() { replayers["C11"] = propC11.replayer() }

// TestC11Enum: small-scope enumeration. Every string over {a,b} up to a length
// ($VERIF_C11_AB, default 15) and over {a,b,c} up to $VERIF_C11_ABC (default 9)
// is parsed by OSAP (MinMatchLen 3 and 2, one block) and the cost of the block
// is compared with the exact optimum.
func TestC11Enum(t *testing.T) {
	st := statsFor("C11")
	cnt := 0
	run := func(k, maxN, minM int) {
		cfg := PCfg{Kind: "OSAP", BufferSize: 64, WindowSize: 64, BlockSize: 64, MinMatchLen: minM}
		p, err := cfg.LZ().NewParser()
		if err != nil {
			t.Fatalf("config rejected: %v", err)
		}
		cc := cfg.Completed()
		var blk lz.Block
		failed := false
		enumStrings(k, maxN, func(s []byte) {
			if failed || len(s) == 0 {
				return
			}
			text := make([]byte, len(s))
			for i, c := range s {
				text[i] = 'a' + c
			}
			cnt++
			_ = p.Reset(nil)
			if _, err := p.Write(text); err != nil {
				t.Errorf("Write: %v", err)
				failed = true
				return
			}
			n, err := p.Parse(&blk, 0)
			if err != nil || n != len(text) {
				return // other properties' business
			}
			got := uint64(len(blk.Literals)) * lz.XZCost(1, 0)
			for _, q := range blk.Sequences {
				got += lz.XZCost(q.MatchLen, q.Offset)
			}
			if opt := optimalCost(text, 0, 0, n, cc.WindowSize, cc.MinMatchLen, cc.MaxMatchLen); got != opt {
				c := ParserCase{Cfg: cfg, Ops: []POp{{Op: "write", Data: cloneBytes(text)}, {Op: "parse"}}}
				msg := fmt.Sprintf("%q (MinMatchLen %d): cost %d bits, the optimum is %d bits (%d literals, sequences %v)", text, cc.MinMatchLen, got, opt, len(blk.Literals), blk.Sequences)
				recordFailure("C11", "enum", c, msg)
				t.Errorf("C11 violated (enumeration): %s", msg)
				failed = true
			}
		})
	}
	ab, abc := envInt("VERIF_C11_AB", 15), envInt("VERIF_C11_ABC", 9)
	run(2, ab, 3)
	run(3, abc, 3)
	run(2, minInt(ab, 12), 2)
	run(3, minInt(abc, 7), 2)
	st.evalN(cnt, "enumerated")
	st.note("enumerated all strings over {a,b} up to length %d and over {a,b,c} up to length %d through OSAP with MinMatchLen 3 (and, three resp. two letters shorter, MinMatchLen 2) against the exact optimum", ab, abc)
	fmt.Printf("ENUM-DONE %d\n", cnt)
}
