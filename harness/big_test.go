package harness

import (
	"encoding/json"
	"fmt"
	"testing"

	"github.com/ulikunitz/lz"
	"github.com/ulikunitz/lz/suffix"
	"pgregory.net/rapid"
)

// Geometries of megabytes that the other tests do not reach, one aspect each:
// suffix arrays of a MiB and more whose length is not a multiple of a word or
// a cache line (C09, C12), Parse(nil) over blocks of 17 and 33 MiB (C14), a
// Shrink by hand on a suffix array parser that holds megabytes (C15), buffers
// above the 8 MiB default filled completely (C16).

// megaText: n bytes uniform over 200 values from one seed, with a marker (20
// times 0xfe, the largest bytes of the text) at two places.
type megaCase struct {
	N      int    `json:"megaN"`
	Seed   uint64 `json:"seed"`
	MarkA  int    `json:"markA"`
	MarkB  int    `json:"markB"`
	Kind   string `json:"kind,omitempty"`
	Buffer int    `json:"buffer,omitempty"`
}

func megaText(c megaCase) []byte {
	t := make([]byte, c.N)
	x := c.Seed
	for i := 0; i < len(t); i += 8 {
		x += 0x9e3779b97f4a7c15
		z := x
		z = (z ^ (z >> 30)) * 0xbf58476d1ce4e5b9
		z = (z ^ (z >> 27)) * 0x94d049bb133111eb
		z ^= z >> 31
		for k := 0; k < 8 && i+k < len(t); k++ {
			t[i+k] = byte(z>>(8*k)) % 200
		}
	}
	for _, m := range []int{c.MarkA, c.MarkB} {
		for k := 0; k < 20 && m >= 0 && m+k < len(t); k++ {
			t[m+k] = 0xfe
		}
	}
	return t
}

func genMegaCase(t *rapid.T, base int) megaCase {
	c := megaCase{Seed: rapid.Uint64().Draw(t, "seed")}
	c.N = base + rapid.SampledFrom([]int{1, 2, 3, 65, 0, 17, 323, 4, 63, 64}).Draw(t, "megaExtra")
	c.MarkA = rapid.IntRange(0, c.N/2).Draw(t, "markA")
	c.MarkB = c.N - 21 - rapid.IntRange(0, 1000).Draw(t, "markBFromEnd")
	return c
}

// TestC09Mega: checkSuffix on texts of 2^20 + {0..323} bytes.
func TestC09Mega(t *testing.T) {
	st := statsFor("C09")
	rapid.Check(t, func(t *rapid.T) {
		c := genMegaCase(t, 1<<20)
		beginCase("C09", "mega", func() any { return c })
		defer endCase()
		msg, bad := checkSuffix(megaText(c))
		endCase()
		if bad {
			recordFailure("C09", "mega", c, msg)
			t.Fatalf("C09 violated (text of %d bytes): %s", c.N, msg)
		}
		st.eval([]string{"mega:text>=2^20"}, true, hashJSON(c), "mega", func() any { return c })
	})
}

// TestC12Mega: GSAP (MinMatchLen 8: the random part has no match) on a text of
// 4 MiB + {0..323} bytes, handed over with Reset; the second marker has to be
// found as a match of 20 bytes and more, every sequence is the longest match.
func TestC12Mega(t *testing.T) {
	st := statsFor("C12")
	rapid.Check(t, func(t *rapid.T) {
		c := genMegaCase(t, 4<<20)
		beginCase("C12", "mega", func() any { return c })
		defer endCase()
		msg, bad := checkMegaGSAP(c)
		endCase()
		if bad {
			recordFailure("C12", "mega", c, msg)
			t.Fatalf("C12 violated (text of %d bytes): %s", c.N, msg)
		}
		st.eval([]string{"mega:suffix-array>=4Mi"}, true, hashJSON(c), "mega", func() any { return c })
	})
}

func checkMegaGSAP(c megaCase) (msg string, bad bool) {
	defer func() {
		if r := recover(); r != nil {
			msg, bad = fmt.Sprintf("panic: %v", r), true
		}
	}()
	text := megaText(c)
	cfg := &lz.GSAPConfig{BufferSize: c.N, WindowSize: c.N, BlockSize: 1 << 20, MinMatchLen: 8}
	p, err := cfg.NewParser()
	if err != nil {
		return "", false
	}
	data := make([]byte, c.N, c.N+8)
	copy(data, text)
	if err := p.Reset(data); err != nil {
		return "Reset: " + err.Error(), true
	}
	var blk lz.Block
	w := 0
	found := false
	for w < c.N {
		n, err := p.Parse(&blk, 0)
		if err != nil || n < 1 {
			return fmt.Sprintf("Parse at %d = (%d, %v)", w, n, err), true
		}
		pos := w
		for _, s := range blk.Sequences {
			pos += int(s.LitLen)
			if l := longestPrev(text, 0, pos, w+n); int(s.MatchLen) != l {
				return fmt.Sprintf("match at position %d has length %d (offset %d); the longest match with an earlier position has length %d", pos, s.MatchLen, s.Offset, l), true
			}
			if pos <= c.MarkB && c.MarkB < pos+int(s.MatchLen) {
				found = true
			}
			pos += int(s.MatchLen)
		}
		if w <= c.MarkB && c.MarkB < w+n && !found && c.MarkB+20 <= w+n && c.MarkA+20 <= c.MarkB {
			return fmt.Sprintf("position %d (20 bytes that occur at position %d as well) is emitted as literals; a match of %d bytes is available",
				c.MarkB, c.MarkA, longestPrev(text, 0, c.MarkB, w+n)), true
		}
		w += n
	}
	return "", false
}

// TestC14BigSkip: Parse(nil) over blocks of 17 and 33 MiB.
func TestC14BigSkip(t *testing.T) {
	st := statsFor("C14")
	for _, kind := range kindsFromEnv([]string{"HP", "BHP", "DHP", "BDHP", "BUP"}) {
		kind := kind
		t.Run(kind, func(t *testing.T) {
			rapid.Check(t, func(t *rapid.T) {
				decorrelate(t, kind)
				c := megaCase{Kind: kind, Seed: rapid.Uint64().Draw(t, "seed"), MarkA: -1, MarkB: -1,
					Buffer: 40 << 20, N: rapid.SampledFrom([]int{36 << 20, 17<<20 + 3072, 34<<20 + 1}).Draw(t, "n")}
				blockSize := rapid.SampledFrom([]int{17 << 20, 33 << 20, 16<<20 + 1}).Draw(t, "blockSize")
				beginCase("C14", "bigskip-"+kind, func() any { return c })
				defer endCase()
				msg, bad := checkBigSkip(c, blockSize)
				endCase()
				if bad {
					recordFailure("C14", "bigskip-"+kind, c, msg)
					t.Fatalf("C14 violated (%s, BlockSize %d): %s", kind, blockSize, msg)
				}
				st.eval([]string{"big-skip:block>16MiB", "kind:" + kind}, true, hashJSON(c)^uint64(blockSize), "bigskip-"+kind, func() any { return c })
			})
		})
	}
}

func checkBigSkip(c megaCase, blockSize int) (msg string, bad bool) {
	defer func() {
		if r := recover(); r != nil {
			msg, bad = fmt.Sprintf("panic: %v", r), true
		}
	}()
	cfg := PCfg{Kind: c.Kind, BufferSize: c.Buffer, WindowSize: 1 << 20, BlockSize: blockSize}
	switch c.Kind {
	case "DHP", "BDHP":
		cfg.HashBits1, cfg.HashBits2 = 14, 15
	default:
		cfg.HashBits = 14
	}
	p, err := cfg.LZ().NewParser()
	if err != nil {
		return "", false
	}
	text := megaText(c)
	if n, err := p.Write(text); n != len(text) || err != nil {
		return fmt.Sprintf("Write(%d bytes) into a buffer of %d = (%d, %v)", len(text), c.Buffer, n, err), true
	}
	w := 0
	for w < len(text) {
		want := minInt(blockSize, len(text)-w)
		n, err := p.Parse(nil, 0)
		if n != want || err != nil {
			return fmt.Sprintf("Parse(nil) with %d unparsed bytes = (%d, %v); want min(BlockSize, unparsed) = %d", len(text)-w, n, err, want), true
		}
		w += n
	}
	if n, err := p.Parse(nil, 0); n != 0 || err != lz.ErrEmptyBuffer {
		return fmt.Sprintf("Parse(nil) on the drained buffer = (%d, %v); want (0, ErrEmptyBuffer)", n, err), true
	}
	return "", false
}

// TestC15BigSA / TestC16BigSA: a suffix array parser with megabytes buffered
// through the stream model: written at once, a few blocks parsed, Shrink by
// hand, reads at the retained and the discarded offsets, more data, the rest
// parsed. GSAP holds 3 MiB; OSAP (prop C16 only) a buffer above the 8 MiB
// default filled completely.
func bigSA(t *testing.T, prop string) {
	st := statsFor(prop)
	kinds := []string{"GSAP"}
	if prop == "C16" {
		kinds = []string{"GSAP", "OSAP"}
	}
	for _, kind := range kindsFromEnv(kinds) {
		kind := kind
		t.Run(kind, func(t *testing.T) {
			rapid.Check(t, func(t *rapid.T) {
				decorrelate(t, kind)
				c := megaCase{Kind: kind, Seed: rapid.Uint64().Draw(t, "seed"), Buffer: 3<<20 + rapid.SampledFrom([]int{0, 1, 4099}).Draw(t, "bufExtra")}
				if kind == "OSAP" {
					c.Buffer = 8<<20 + 65536
				}
				c.N = c.Buffer
				c.MarkA, c.MarkB = rapid.IntRange(0, 1000).Draw(t, "markA"), c.N-5000
				beginCase(prop, "bigsa-"+kind, func() any { return c })
				defer endCase()
				msg, bad := checkBigSA(c, prop)
				endCase()
				if bad {
					recordFailure(prop, "bigsa-"+kind, c, msg)
					t.Fatalf("%s violated (%s with %d bytes buffered): %s", prop, kind, c.N, msg)
				}
				st.eval([]string{"big-suffix-array-parser", "kind:" + kind}, true, hashJSON(c), "bigsa-"+kind, func() any { return c })
			})
		})
	}
}

func checkBigSA(c megaCase, prop string) (string, bool) {
	cfg := PCfg{Kind: c.Kind, BufferSize: c.Buffer, WindowSize: c.Buffer, BlockSize: 128 << 10, MinMatchLen: 4}
	x, err := newParserExec(cfg)
	if err != nil {
		return "", false
	}
	text := megaText(c)
	x.step(POp{Op: "write", Data: text})
	for k := 0; k < 3 && !x.dead; k++ {
		x.step(POp{Op: "parse"})
	}
	x.step(POp{Op: "shrink"})
	x.step(POp{Op: "byteat", Off: 0})
	x.step(POp{Op: "byteat", Off: int64(x.off)})
	x.step(POp{Op: "readat", Off: int64(x.off) - 1, Len: 16})
	x.step(POp{Op: "write", Data: text[:200_000]})
	blocks := 6
	if c.Kind == "OSAP" {
		blocks = 80 // the whole buffer: edges are computed for all of it
	}
	for k := 0; k < blocks && !x.dead && x.unparsed() > 0; k++ {
		x.step(POp{Op: "parse"})
	}
	x.step(POp{Op: "shrink"})
	for _, pr := range []string{prop, "C01"} {
		if msg, bad := x.first(pr); bad {
			return msg, true
		}
	}
	return "", false
}

func TestC15BigSA(t *testing.T) { bigSA(t, "C15") }
func TestC16BigSA(t *testing.T) { bigSA(t, "C16") }

func init() {
	for _, prop := range []string{"C09", "C12", "C14", "C15", "C16"} {
		prop := prop
		prev := replayers[prop]
		replayers[prop] = func(raw json.RawMessage) (string, bool, error) {
			var probe struct {
				N *int `json:"megaN"`
			}
			if err := json.Unmarshal(raw, &probe); err != nil || probe.N == nil {
				return prev(raw)
			}
			var c megaCase
			if err := json.Unmarshal(raw, &c); err != nil {
				return "", false, err
			}
			switch prop {
			case "C09":
				msg, bad := checkSuffix(megaText(c))
				return msg, bad, nil
			case "C12":
				msg, bad := checkMegaGSAP(c)
				return msg, bad, nil
			case "C14":
				for _, bs := range []int{17 << 20, 33 << 20, 16<<20 + 1} {
					if msg, bad := checkBigSkip(c, bs); bad {
						return msg, true, nil
					}
				}
				return "", false, nil
			default:
				msg, bad := checkBigSA(c, prop)
				return msg, bad, nil
			}
		}
	}
	_ = suffix.Sort
}
