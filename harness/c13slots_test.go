package harness

import (
	"fmt"
	"testing"

	"pgregory.net/rapid"
)

// slotPrime replicates the multiplier of lz's hashValue. It is used by the
// GENERATOR only (to aim an n-gram at a chosen slot of the hash table); the
// oracle is the differential "used and Reset parser against a new parser". A
// wrong constant makes the aim random, never the verdict wrong.
const slotPrime = 9920624304325388887

func slotOf(x uint64, bits int) uint32 { return uint32((x * slotPrime) >> uint(64-bits)) }

func splitmix64(s *uint64) uint64 {
	*s += 0x9e3779b97f4a7c15
	z := *s
	z = (z ^ (z >> 30)) * 0xbf58476d1ce4e5b9
	z = (z ^ (z >> 27)) * 0x94d049bb133111eb
	return z ^ (z >> 31)
}

// gramForSlot searches an n-gram of n bytes (all bytes below 0x60, so that it
// cannot collide with the filler) whose hash is the given slot.
func gramForSlot(seed uint64, n, bits int, slot uint32) ([]byte, bool) {
	for try := 0; try < 40<<uint(bits); try++ {
		r := splitmix64(&seed)
		var x uint64
		for k := 0; k < n; k++ {
			x |= (1 + (r>>(8*uint(k)))&0xff%0x5f) << (8 * uint(k))
		}
		if slotOf(x, bits) == slot {
			g := make([]byte, n)
			for k := range g {
				g[k] = byte(x >> (8 * uint(k)))
			}
			return g, true
		}
	}
	return nil, false
}

// TestC13Slots aims the one leftover that matters at a chosen slot of a large
// hash table: H1 holds an n-gram g that hashes to the slot, H2 holds a
// near-copy of g at the same position and g itself further on. The slots are
// the edges of the table and the edges of every partition of the table into
// 2..16 equal parts (where a Reset that clears the table piecewise would leave
// something behind); GOMAXPROCS is part of the case.
func TestC13Slots(t *testing.T) {
	st := statsFor("C13")
	for _, kind := range kindsFromEnv([]string{"HP", "BHP", "DHP", "BDHP", "BUP"}) {
		kind := kind
		t.Run(kind, func(t *testing.T) {
			rapid.Check(t, func(t *rapid.T) {
				decorrelate(t, kind)
				bits := rapid.IntRange(16, 18).Draw(t, "hashBits")
				n := rapid.IntRange(4, 6).Draw(t, "inputLen")
				cfg := PCfg{Kind: kind, BufferSize: 1 << 16, WindowSize: 1 << 16, ShrinkSize: 1 << 15, BlockSize: 1 << 16}
				switch kind {
				case "DHP", "BDHP":
					// the long hash is the large table in half of the cases
					if rapid.Bool().Draw(t, "longIsLarge") {
						cfg.InputLen1, cfg.HashBits1 = 3, rapid.IntRange(8, 17).Draw(t, "hashBits1")
						cfg.InputLen2, cfg.HashBits2 = n, bits
					} else {
						cfg.InputLen1, cfg.HashBits1 = n, bits
						cfg.InputLen2, cfg.HashBits2 = n+rapid.IntRange(1, 2).Draw(t, "longer"), rapid.IntRange(8, 17).Draw(t, "hashBits2")
					}
				case "BUP":
					cfg.InputLen, cfg.HashBits, cfg.BucketSize = n, bits, rapid.IntRange(1, 4).Draw(t, "bucket")
				default:
					cfg.InputLen, cfg.HashBits = n, bits
				}
				procs := rapid.SampledFrom([]int{1, 2, 3, 3, 5, 6, 7, 9, 10, 11, 12, 13, 14, 15, 16}).Draw(t, "procs")
				size := uint32(1) << uint(bits)
				parts := uint32(rapid.IntRange(2, 16).Draw(t, "parts"))
				chunk := size / parts
				var slot uint32
				class := rapid.SampledFrom([]string{"last", "last", "first", "rest", "rest", "boundary", "any"}).Draw(t, "slotClass")
				switch class {
				case "last":
					slot = size - 1 - uint32(rapid.IntRange(0, 3).Draw(t, "back"))
				case "first":
					slot = uint32(rapid.IntRange(0, 3).Draw(t, "fwd"))
				case "rest": // behind the last of `parts` equal pieces
					rest := size - chunk*parts
					if rest == 0 {
						slot = size - 1
					} else {
						slot = chunk*parts + uint32(rapid.IntRange(0, int(rest)-1).Draw(t, "inRest"))
					}
				case "boundary":
					slot = chunk*uint32(rapid.IntRange(1, int(parts)).Draw(t, "piece")) - uint32(rapid.IntRange(0, 1).Draw(t, "before"))
					if slot >= size {
						slot = size - 1
					}
				default:
					slot = uint32(rapid.Uint32Range(0, size-1).Draw(t, "slot"))
				}
				g, ok := gramForSlot(rapid.Uint64().Draw(t, "gramSeed"), n, bits, slot)
				if !ok {
					st.class("slots:no-gram")
					return
				}
				total := rapid.IntRange(48, 120).Draw(t, "size")
				j := rapid.IntRange(0, 24).Draw(t, "oldPos")
				i := rapid.IntRange(0, total-n-1).Draw(t, "newPos")
				base := rapid.IntRange(0x60, 0x80).Draw(t, "fillBase")
				filler := func() []byte {
					p := make([]byte, total)
					for k := range p {
						p[k] = byte(base + k)
					}
					return p
				}
				h1 := filler()
				copy(h1[j:], g)
				h2 := filler()
				keep := rapid.IntRange(0, n).Draw(t, "nearCopy") // bytes of g that H2 has at the old position
				if i >= j+n || i+n <= j {
					copy(h2[j:], g[:keep])
					if keep < n && keep > 0 {
						h2[j+keep] = 0xff
					}
				}
				copy(h2[i:], g)
				c := c13EnumCase{Cfg: cfg, H1: h1, H2: h2, Procs: procs, H1NTL: rapid.IntRange(0, 4).Draw(t, "ntl") == 0}
				beginCase("C13", "slots-"+kind, func() any { return c })
				defer endCase()
				msg, bad, err := checkC13Enum(c)
				endCase()
				if err != nil {
					st.class("config-rejected:" + kind)
					return
				}
				if bad {
					recordFailure("C13", "slots-"+kind, c, msg)
					t.Fatalf("C13 violated (slots %s, GOMAXPROCS %d, slot %d of %d): %s", kind, procs, slot, size, msg)
				}
				cl := []string{"slots", "slots:" + class, "kind:" + kind, fmt.Sprintf("slots:procs-pow2=%v", procs&(procs-1) == 0)}
				// non-trivial: the old position holds at least 3 bytes of g in
				// H2 and g stands behind it: a surviving entry would be used
				st.eval(cl, i >= j+n && keep >= 3, hashJSON(c), "slots-"+kind, func() any { return c })
			})
		})
	}
}
