package harness

import (
	"testing"

	"pgregory.net/rapid"
)

// TestC02Collide builds the start of a stream in which a prefix P M appears a
// second time, while the hash table entries of the positions inside P have been
// taken over by colliding n-grams (aimed with the replicated hash multiplier of
// c13slots_test.go; the oracle is the sequence validity check of C02): the
// only match is found at the second M, and its backward extension runs through
// the second P up to the first byte of the stream - the clause "Offset no
// larger than the number of stream bytes that precede the match" at its edge.
func TestC02Collide(t *testing.T) {
	st := statsFor("C02")
	for _, kind := range kindsFromEnv([]string{"BHP", "BDHP", "HP", "DHP", "BUP"}) {
		kind := kind
		t.Run(kind, func(t *testing.T) {
			rapid.Check(t, func(t *rapid.T) {
				decorrelate(t, kind)
				bits := rapid.IntRange(8, 16).Draw(t, "hashBits")
				n := rapid.IntRange(3, 5).Draw(t, "inputLen")
				cfg := PCfg{Kind: kind, BufferSize: 1 << 12, WindowSize: 1 << 12, BlockSize: 1 << 12}
				n2, bits2 := 0, 0
				switch kind {
				case "DHP", "BDHP":
					n2, bits2 = n+rapid.IntRange(1, 3).Draw(t, "longer"), rapid.IntRange(8, 16).Draw(t, "hashBits2")
					cfg.InputLen1, cfg.HashBits1, cfg.InputLen2, cfg.HashBits2 = n, bits, n2, bits2
				case "BUP":
					cfg.InputLen, cfg.HashBits, cfg.BucketSize = n, minInt(bits, 12), 1
					bits = cfg.HashBits
				default:
					cfg.InputLen, cfg.HashBits = n, bits
				}
				seed := rapid.Uint64().Draw(t, "seed")
				high := func(k int) []byte {
					p := make([]byte, k)
					for i := range p {
						p[i] = byte(0x80 | splitmix64(&seed)&0x7f)
					}
					return p
				}
				x0 := high(rapid.IntRange(0, 3).Draw(t, "notCopied"))
				j := rapid.IntRange(1, 48).Draw(t, "prefixLen")
				pm := append(high(j), high(rapid.IntRange(maxInt(n, n2), 16).Draw(t, "mLen"))...)
				data := append(cloneBytes(x0), pm...)
				gramAt := func(pos, n int) uint64 {
					var x uint64
					for k := 0; k < n && pos+k < len(data); k++ {
						x |= uint64(data[pos+k]) << (8 * uint(k))
					}
					return x
				}
				skip := rapid.IntRange(0, 9).Draw(t, "leaveSome") == 0
				start := len(x0)
				for pos := 0; pos < start+j; pos++ {
					if skip && splitmix64(&seed)%4 == 0 {
						continue
					}
					if g, ok := gramForSlot(splitmix64(&seed), n, bits, slotOf(gramAt(pos, n), bits)); ok {
						data = append(data, g...)
					}
					if n2 > 0 {
						if g, ok := gramForSlot(splitmix64(&seed), n2, bits2, slotOf(gramAt(pos, n2), bits2)); ok {
							data = append(data, g...)
						}
					}
				}
				data = append(data, pm...)
				data = append(data, high(rapid.IntRange(0, 40).Draw(t, "tail"))...)
				x, err := newParserExec(cfg)
				if err != nil {
					st.class("config-rejected:" + kind)
					return
				}
				beginCase("C02", "collide-"+kind, func() any { return x.Case() })
				defer endCase()
				x.step(POp{Op: "write", Data: data})
				for k := x.unparsed() + 2; k > 0 && x.unparsed() > 0 && !x.dead; k-- {
					x.step(POp{Op: "parse"})
				}
				endCase()
				if msg, bad := x.first("C02"); bad {
					recordFailure("C02", "collide-"+kind, x.Case(), msg)
					t.Fatalf("C02 violated (collide %s): %s", kind, msg)
				}
				if x.dead {
					st.abort("collide-" + kind)
					return
				}
				c := x.Case()
				cl := []string{"collide", "kind:" + kind}
				// non-trivial: a match was emitted and the copied prefix has 17
				// bytes and more (word-wise backward comparison with a tail)
				st.eval(cl, x.nMatches > 0 && j >= 17, hashJSON(c), "collide-"+kind, func() any { return c })
			})
		})
	}
}
