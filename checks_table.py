"""Per-property run specification used by ./check: which test functions of the
harness decide the property, how many cases each tier requests, and the texts
that go into the evidence file."""

KINDS7 = 7

ASSUME_COMMON = [
    "the Go toolchain, pgregory.net/rapid v1.3.0 and the harness's reference models (harness/ref*.go) are correct",
    "generated cases are bounded: buffers of at most a few hundred bytes in most cases, streams of a few kB",
]


def parser_hist(test, quick, thorough, subchecks=KINDS7):
    return {
        "quick": {"tests": [{"test": test, "checks": quick, "subchecks": subchecks}]},
        "thorough": {"shards": 16, "tests": [{"test": test, "checks": thorough, "subchecks": subchecks}]},
    }


CHECKS = {}

CHECKS["C01"] = dict(
    parser_hist("TestC01", 3000, 8000),
    rule=("rapid-generated parser histories (config of one of the 7 kinds accepted by NewParser; ops Write/ReadFrom/"
          "Reset(data,cap)/Reset(nil)/Parse(0|NoTrailingLiterals)/Shrink over a segment-structured text), every block "
          "expanded by the reference LZ77 expander with the whole stream as history and compared with the bytes fed. "
          "Non-trivial: >= 2 blocks, >= 1 match, and a Shrink>0 before a later match, or a refill after parsing, or "
          "NoTrailingLiterals on a block with a sequence, or Reset(data) with spare capacity. Distinct = distinct "
          "FNV-64 hash of (config, executed operations)."),
    assumptions=ASSUME_COMMON,
)

CHECKS["C02"] = dict(
    parser_hist("TestC02", 3000, 8000),
    rule=("parser histories as C01 plus Parse(nil); every emitted Seq checked against the absolute stream position "
          "derived by the model (Aux, 1<=Offset<=WindowSize, Offset<=position, MatchLen>=minimum, OSAP MatchLen<="
          "MaxMatchLen, sum LitLen<=len(Literals)). Non-trivial: >= 1 match emitted at a stream position beyond "
          "WindowSize (the window guard is live)."),
    assumptions=ASSUME_COMMON,
)

CHECKS["C03"] = dict(
    parser_hist("TestC03", 3000, 8000),
    rule=("parser histories as C01 with both flag values; (n, err) of every Parse compared with the length of the "
          "reference expansion, Block.Len, BlockSize, the emptiness of the buffer and the NoTrailingLiterals rules; "
          "the block handed in is pre-filled with garbage. Non-trivial: a NoTrailingLiterals block with a sequence that "
          "left trailing bytes uncovered, or >= 3 blocks."),
    assumptions=ASSUME_COMMON,
)

CHECKS["C14"] = dict(
    parser_hist("TestC14", 3000, 8000),
    rule=("parser histories with heavy Parse(nil) interleaved with Parse(&blk), Write, ReadFrom, Shrink; Parse(nil) must "
          "return (min(BlockSize, unparsed), nil) or (0, ErrEmptyBuffer); later blocks are expanded against the stream "
          "with the skipped bytes present verbatim. Non-trivial: a block after a Parse(nil) contains a match whose "
          "source overlaps skipped bytes, or a Shrink>0 after a Parse(nil)."),
    assumptions=ASSUME_COMMON,
)

# ---------------------------------------------------------------------------
# Texts for MANIFEST.json (gen_manifest.py).

NOTE_PBT = ("Exploration only: held on the generated cases counted in the evidence file; never shows absence. Trusted: Go "
            "toolchain, rapid, the harness's reference models; the model derives stream positions from returned values, "
            "not from the implementation's fields.")

MANIFEST_TEXT = {
    "C01": dict(engine="parser-history",
                technique="stateful property-based testing (rapid): round trip through an independent reference LZ77 expander",
                level="Generated-history exploration: thousands of random call histories per parser kind and run, each block "
                      "expanded by an independent expander and compared with the bytes fed. Right level because the property "
                      "quantifies over inputs x configs x histories and has an exact executable oracle (round trip).",
                note=NOTE_PBT),
    "C02": dict(engine="parser-history",
                technique="stateful property-based testing (rapid): validity predicate over every emitted sequence against model-derived stream positions",
                level="Generated-history exploration with a validity predicate per sequence; geometries biased to windows smaller than the buffer so the guards are live.",
                note=NOTE_PBT),
    "C03": dict(engine="parser-history",
                technique="stateful property-based testing (rapid): return values against the reference expansion length and a stream model",
                level="Generated-history exploration; exact oracle for n, err and the NoTrailingLiterals rules.",
                note=NOTE_PBT),
    "C14": dict(engine="parser-history",
                technique="stateful property-based testing (rapid): Parse(nil) against a stream model, later blocks against the reference expander",
                level="Generated-history exploration with heavy Parse(nil); exact oracle for n/err and stream position.",
                note=NOTE_PBT),
}

CHECKS["C15"] = dict(
    parser_hist("TestC15", 3000, 8000, subchecks=8),
    rule=("stateful histories over lz.ParserBuffer used directly (kind BUF: Init, Write, ReadFrom, Reset, Shrink, ReadAt, "
          "PeekAt, ByteAt, the harness moving W) and through the Parser interface of all 7 kinds, against a list-of-bytes "
          "model predicting every (n, err); offsets drawn around both ends of the retained range; readers with short "
          "reads and errors; Reset(data) with spare capacity and with oversize data. Non-trivial: a Shrink>0 followed by "
          ">= 2 reads, or a ReadFrom that stopped at the capacity limit."),
    assumptions=ASSUME_COMMON,
)
MANIFEST_TEXT["C15"] = dict(
    engine="parser-history",
    technique="stateful model-based property testing (rapid) against a list-of-bytes model of the sliding buffer",
    level="Generated-history exploration; the model predicts every return value exactly, so any deviation is a counterexample.",
    note=NOTE_PBT)

CHECKS["C08"] = dict(
    parser_hist("TestC08", 1500, 4000),
    rule=("WrappedParser histories: accepted config with ShrinkSize < BufferSize of each of the 7 kinds, input of 0..6 "
          "buffer fills (incl. exact multiples of BlockSize/BufferSize), scripted reader with chunk sizes 1/short/whole, "
          "(0,nil) reads, data+io.EOF and injected errors with or without data; Parse is called until io.EOF has been "
          "returned 4 times. Oracles: reference expansion equals the bytes handed out; io.EOF/reader error only with n=0 "
          "and after all bytes read were delivered; for fault-free scripts the block sequence equals the one obtained "
          "with bytes.Reader. Non-trivial: input longer than BufferSize with a chunked reader, or a fault that arrived "
          "together with data."),
    assumptions=ASSUME_COMMON + ["scripted readers obey the io.Reader contract; a stream that returned io.EOF stays ended"],
)
MANIFEST_TEXT["C08"] = dict(
    engine="parser-history",
    technique="property-based testing with scripted fault-injecting readers (rapid): round trip + differential on reader chunking",
    level="Generated inputs x reader scripts (chunkings and fault placements drawn, not enumerated); exact round-trip oracle and a differential oracle against bytes.Reader.",
    note=NOTE_PBT)
CHECKS["C01"]["quick"]["tests"].append({"test": "TestC01Wrap", "checks": 1000, "subchecks": KINDS7})
CHECKS["C01"]["thorough"]["tests"].append({"test": "TestC01Wrap", "checks": 3000, "subchecks": KINDS7})

CHECKS["C16"] = {
    "quick": {"tests": [
        {"test": "TestC16", "checks": 2000, "subchecks": KINDS7},
        {"test": "TestC16Wrap", "checks": 1000, "subchecks": KINDS7},
        {"test": "TestC16Accept", "checks": 3000, "subchecks": KINDS7},
        {"test": "TestC16Enum", "checks": 1, "subchecks": 21312},
    ]},
    "thorough": {"shards": 16, "tests": [
        {"test": "TestC16", "checks": 8000, "subchecks": KINDS7},
        {"test": "TestC16Wrap", "checks": 3000, "subchecks": KINDS7},
        {"test": "TestC16Accept", "checks": 20000, "subchecks": KINDS7},
    ]},
    "rule": ("(1) acceptance: configurations of all 7 kinds with 0..all fields replaced by values of a boundary pool "
             "{min int64, -1, 0, 1, 2, 7, 8, 9, 23, 24, 25, 128, 129, 2^31-1, 2^31, 2^32-8, 2^32-7, 2^32, max int64, small "
             "randoms} (rapid) plus the full pool x pool enumeration of the interacting field groups (21312 configs, quick "
             "tier): NewParser succeeds iff Verify of the defaults-completed clone is nil, never panics (NewParser is "
             "skipped, counted, when the tables would exceed 2^22 entries). (2) robustness: parser histories with the full "
             "op mix (Write, ReadFrom with faulting readers, Parse both flags, Parse(nil), Shrink, Reset(nil), Reset(data, "
             "spare capacity, oversize), ReadAt, ByteAt) and WrappedParser histories with faulting readers and nil blocks: "
             "no panic, no reader spin, watchdog for CPU loops, only documented errors. Non-trivial: (1) >= 2 non-zero "
             "fields; (2) a boundary-valued config driven through >= 1 refill / wrap input longer than the buffer."),
    "assumptions": ASSUME_COMMON + ["hash tables above 2^22 entries are verified for acceptance only, not allocated"],
}
MANIFEST_TEXT["C16"] = dict(
    engine="config-algebra",
    technique="property-based testing over a boundary-value pool + small-scope enumeration of interacting fields (acceptance); stateful PBT with fault injection (robustness)",
    level="Exploration with an exhaustive small-scope part: the pool products of the interacting field groups are enumerated completely; histories are generated.",
    note=NOTE_PBT)

DEC_ASSUME = ASSUME_COMMON + [
    "scripted writers obey the io.Writer contract (a short write comes with an error) and always return",
    "DecoderBuffer.BufferSize is a soft capacity: the model never predicts ErrFullBuffer, only that it is the one legal refusal of a well-formed operand",
]


def dec_hist(tests_quick, tests_thorough):
    return {"quick": {"tests": tests_quick}, "thorough": {"shards": 16, "tests": tests_thorough}}


CHECKS["C04"] = dict(
    dec_hist([{"test": "TestC04", "checks": 20000, "subchecks": 2}],
             [{"test": "TestC04", "checks": 200000, "subchecks": 2}]),
    rule=("stateful histories over lz.DecoderBuffer (WriteByte, Write, WriteMatch, WriteBlock, Read, WriteTo with healthy "
          "and faulting writers, Reset, ByteAtEnd) and over lz.Decoder with a healthy writer; WindowSize 1..64, BufferSize "
          "0 (=2W) or W+1..W+64; valid operands drawn from the model state (offsets up to exactly min(W, written), "
          "overlapping matches, literal runs and matches from 0 to beyond BufferSize). After every op: Data is the tail of "
          "the reference expansion, the read cursor is where the model says, min(W, written) bytes stay addressable, bytes "
          "read/offered equal the expansion; Decoder: the writer holds a prefix, and everything after Flush. Non-trivial: "
          "(dbuf) shrink discarded bytes while the read cursor was inside the data and a later match used distance == "
          "WindowSize; (dec) the retry loop ran, sequences were written and the stream exceeds BufferSize."),
    assumptions=DEC_ASSUME,
)
CHECKS["C05"] = dict(
    dec_hist([{"test": "TestC05", "checks": 20000, "subchecks": 2}],
             [{"test": "TestC05", "checks": 200000, "subchecks": 2}]),
    rule=("C04 histories where 35% of the WriteMatch/WriteBlock operands are hostile: one sequence of a valid block is "
          "corrupted (Offset 0 with a match, Offset beyond min(W, available) incl. bound+1, LitLen beyond the literals, "
          "fields from {0,1,2^31-1,2^31,2^32-1,...} or arbitrary uint32, enormous MatchLen). Oracle: malformed => error, "
          "k = its index, l = literals before it, buffer = expansion of exactly those k sequences, caller's block "
          "unchanged, never a panic; well-formed operands are not answered with the offset/litlen errors. Non-trivial: a "
          "rejected sequence with >= 1 valid sequence in front of it in the same block, in a buffer that had already "
          "shrunk (dec: in a stream longer than BufferSize)."),
    assumptions=DEC_ASSUME,
)
CHECKS["C06"] = dict(
    dec_hist([{"test": "TestC06", "checks": 20000, "subchecks": 2}],
             [{"test": "TestC06", "checks": 200000, "subchecks": 2}]),
    rule=("Decoder and DecoderBuffer histories with 60% of the operand sizes drawn relative to the free space "
          "BufferSize-WindowSize (one less, equal, one more, BufferSize, larger than BufferSize), valid and hostile, "
          "writer faults included. The scripted writer counts consecutive zero-length drains inside one API call: 8 in a "
          "row is a spin (the call is then ended through the code's own error path with a sentinel error); a watchdog "
          "covers pure CPU loops. Non-trivial: a Decoder call that had to drain to the writer (retry loop ran)."),
    assumptions=DEC_ASSUME,
)
CHECKS["C07"] = dict(
    dec_hist([{"test": "TestC07", "checks": 10000, "subchecks": 2},
              {"test": "TestC07Parsers", "checks": 2000, "subchecks": KINDS7}],
             [{"test": "TestC07", "checks": 100000, "subchecks": 2},
              {"test": "TestC07Parsers", "checks": 5000, "subchecks": KINDS7}]),
    rule=("(a) parser side: histories (Write, ReadFrom, Parse both flags, Shrink) of all 7 kinds with small windows and "
          "BlockSize from 1 to beyond 4*W; every emitted block is written to a Decoder{WindowSize W, BufferSize 0 or "
          "W+1..4W}; (b) synthetic side: blocks generated to be well-formed for W, item sizes up to and beyond "
          "BufferSize-WindowSize. Oracle: WriteBlock returns nil with k, l complete, after Flush the writer holds the "
          "original bytes; at DecoderBuffer level a well-formed item that fits BufferSize-WindowSize is never answered "
          "with the permanent MatchLen error. Items larger than BufferSize-WindowSize are the known finding D14: counted "
          "as excluded_known, still executed (must end with an error, not a spin), the stream is resynchronised. "
          "Non-trivial: a block with a match that forced the decoder to flush, or BlockSize > WindowSize."),
    assumptions=DEC_ASSUME,
)
CHECKS["C17"] = dict(
    dec_hist([{"test": "TestC17", "checks": 20000, "subchecks": 2}],
             [{"test": "TestC17", "checks": 200000, "subchecks": 2}]),
    rule=("DecoderBuffer histories biased to a full buffer with already-read bytes (Read/WriteTo before writes), blocks "
          "that stop early with an error (15% hostile), and Decoder.WriteBlock with multi-attempt calls. Oracle from the "
          "model: n = bytes appended by the call, k, l as consumed, Off = total bytes written, Write/WriteMatch report "
          "what they appended. Non-trivial: a WriteBlock during which the buffer discarded bytes (dbuf) / that needed "
          "several attempts (dec)."),
    assumptions=DEC_ASSUME,
)
CHECKS["C18"] = dict(
    dec_hist([{"test": "TestC18", "checks": 20000, "subchecks": 2},
              {"test": "TestC18Enum", "checks": 300, "subchecks": 1, "nocount": True}],
             [{"test": "TestC18", "checks": 200000, "subchecks": 2},
              {"test": "TestC18Enum", "checks": 2000, "subchecks": 1, "nocount": True}]),
    level="fault_enumeration",
    rule=("Decoder histories of valid blocks/writes/bytes with a scripted writer whose first calls accept everything, "
          "accept 0..12 bytes with an error, or accept everything with an error (0..12 events, several faults); the harness "
          "plays the documented caller (retry Sequences[k:], Literals[l:] / p[n:] / the byte / Flush). TestC18Enum "
          "enumerates, for generated short streams, every single-fault placement over the writer calls of the fault-free "
          "run x every accepted count 0..len-1. Oracle: after every call the accepted bytes are a prefix of the reference "
          "expansion; errors surfaced are the writer's; after the final Flush accepted == expansion. Non-trivial: a short "
          "write (0 < accepted < len) inside a WriteBlock retry loop."),
    assumptions=DEC_ASSUME,
)
for pid, tech, lvl in [
    ("C04", "stateful model-based property testing (rapid) of DecoderBuffer/Decoder against a reference LZ77 expansion model",
     "Generated-history exploration; relations checked after every operation against exported fields and writer output."),
    ("C05", "stateful property-based testing with hostile operand generation (boundary pool + uint32 fuzz) against a reference validator",
     "Generated-history exploration with hostile operands in every reachable buffer state; thorough adds a native coverage-guided fuzz campaign."),
    ("C06", "stateful property-based testing with a spin-detecting scripted writer (deterministic non-termination oracle) plus watchdog",
     "Generated-history exploration; loops through caller code are decided deterministically by counting empty drains, CPU loops by a confirmed watchdog."),
    ("C07", "property-based differential pipeline parser -> Decoder plus synthetic well-formed block generation",
     "Generated-input exploration; one known finding (D14) is excluded by construction and counted."),
    ("C17", "stateful model-based property testing (rapid): returned counts and Off against model counts",
     "Generated-history exploration with exact oracle for n, k, l and Off."),
    ("C18", "fault injection: generated and enumerated writer fault placements, exactly-once oracle on the accepted bytes",
     "Fault enumeration over single-fault placements on short streams plus generated multi-fault scripts."),
]:
    MANIFEST_TEXT[pid] = dict(engine="decoder-model", technique=tech, level=lvl, note=NOTE_PBT,
                              category="fault_enumeration" if pid == "C18" else "exploration")

SUFFIX_ASSUME = [
    "the Go toolchain, pgregory.net/rapid v1.3.0 and the harness's suffix oracles (harness/suffixref.go: Burkhardt-Kaerkkaeinen checker, naive sort, naive/Kasai LCP, brute-force prefix groups) are correct",
]
CHECKS["C09"] = {
    "quick": {"tests": [{"test": "TestC09", "checks": 12000, "subchecks": 1},
                        {"test": "TestC09Enum", "checks": 1, "subchecks": 7375}]},
    "thorough": {"shards": 16, "timeout": 3000, "tests": [
        {"test": "TestC09", "checks": 30000, "subchecks": 1},
        {"test": "TestC09Enum", "checks": 1, "subchecks": 62285, "env": {"VERIF_C09_AB": "14", "VERIF_C09_ABC": "9"}, "once": True},
        {"test": "TestC09Large", "checks": 1, "subchecks": 24, "once": True},
    ]},
    "rule": ("texts of length 0..4000 from structured families (uniform over alphabets 1,2,3,4,256; Fibonacci, Thue-Morse, "
             "period-doubling, de Bruijn, (a^k b)^m with jitter, runs of two letters, word concatenations, squares/cubes, "
             "periodic with point mutations, LZ-copy texts, repeated blocks of distinct units, random words repeated many "
             "times, words with periodic stretches repeated 4-8 times (the family that reaches trPartialCopy), uniform "
             "binary/ternary strings of 2000-4000 bytes (trHeapSort); random relabelling of the symbols) plus the exhaustive "
             "enumeration of all strings over {a,b} up to length 11 and {a,b,c} up to length 7 (quick; 14 resp. 9 and "
             "50 kB-1 MB family members in thorough). sa is pre-filled with garbage; Sort is checked by the complete "
             "linear-time suffix-array characterisation (permutation, first bytes ordered, tail ranks ordered) and for "
             "n<=64 against sorting by comparison; LCP in all four sa/sainv supplied-or-nil combinations against naive / "
             "Kasai LCP; InvertSA; the text must be unchanged. Non-trivial: two B* suffixes share their B*-substring (the "
             "rank sort has real work). Distinct = distinct text."),
    "assumptions": SUFFIX_ASSUME,
}
CHECKS["C10"] = {
    "quick": {"tests": [{"test": "TestC10", "checks": 20000, "subchecks": 1},
                        {"test": "TestC10Deep", "checks": 150, "subchecks": 1},
                        {"test": "TestC10Huge", "checks": 6, "subchecks": 1},
                        {"test": "TestC10Rank", "checks": 150, "subchecks": 1},
                        {"test": "TestC10Enum", "checks": 1, "subchecks": 66364}]},
    "thorough": {"shards": 16, "timeout": 3000, "tests": [
        {"test": "TestC10", "checks": 200000, "subchecks": 1},
        {"test": "TestC10Deep", "checks": 3000, "subchecks": 1},
        {"test": "TestC10Huge", "checks": 24, "subchecks": 1, "once": True},
        {"test": "TestC10Rank", "checks": 1000, "subchecks": 1},
        {"test": "TestC10Enum", "checks": 1, "subchecks": 1, "nocount": True, "env": {"VERIF_C10_AB": "12", "VERIF_C10_ABC": "7"}, "once": True},
    ]},
    "rule": ("texts of length 0..48 (10%: up to 160) from the C09 families with drawn (minLen, maxLen), sa/lcp computed by "
             "the harness's naive reference or by the library, plus the exhaustive enumeration of all texts over {a,b} up to "
             "length 9 and {a,b,c} up to length 5 with every 0 <= minLen <= maxLen <= n+1 (quick; 12 resp. 7 in thorough). "
             "Oracle: brute force over all pairs of suffixes: every callback has minLen <= m <= maxLen, distinct members "
             "pairwise sharing >= m bytes; every pair with common prefix c >= minLen is in exactly one callback with "
             "m = min(c, maxLen); a group is reported before every group that contains it; no panic (empty text, minLen 0). "
             "In 40% of the generated cases one or two earlier Segments calls with other (minLen, maxLen) are made on the "
             "same sa/lcp tables first (the enumeration runs all pairs of a text as one call sequence as well), and "
             "maxLen/minLen are also drawn beyond the text up to MaxInt32. "
             "Non-trivial: the LCP table falls to a level that is still >= max(minLen,1) (an enclosing group must keep the "
             "left boundary of the group just closed)."),
    "assumptions": SUFFIX_ASSUME,
}
MANIFEST_TEXT["C09"] = dict(
    engine="suffix-oracles",
    technique="property-based testing over structured text families + small-scope exhaustive enumeration, against a complete linear-time suffix-array checker and naive LCP",
    level="Exploration with an exhaustive small-scope part (all short strings over 2 and 3 letters); the checker is a complete characterisation, so any wrong output on an explored input is caught.",
    note=NOTE_PBT + " Statements of trsort reachable only by budget exhaustion are reported by measured coverage in the thorough tier, not claimed.")
MANIFEST_TEXT["C10"] = dict(
    engine="suffix-oracles",
    technique="property-based testing + small-scope exhaustive enumeration of (text, minLen, maxLen) against brute-force prefix groups over all suffix pairs",
    level="Exploration with an exhaustive small-scope part; the oracle checks both directions (soundness of every callback, completeness and uniqueness for every pair).",
    note=NOTE_PBT)

CHECKS["C11"] = dict(
    {"quick": {"tests": [{"test": "TestC11", "checks": 30000, "subchecks": 1}]},
     "thorough": {"shards": 16, "tests": [{"test": "TestC11", "checks": 200000, "subchecks": 1}]}},
    rule=("OSAP histories (Write, ReadFrom, Parse, Shrink, Reset; 1..4 fills; buffers up to 120 bytes; MinMatchLen 2..8, "
          "MaxMatchLen Min..Min+20 or 273 or default; windows smaller/equal/larger than the buffer; BlockSize 1..). For "
          "every block parsed with flags 0 an independent O(n*window*len) dynamic program over the same bytes (literal 9 "
          "bits, lz.XZCost per match, lengths in [Min,Max] clipped at the block end, offsets <= WindowSize, sources inside "
          "the data still buffered) gives the optimum; the block's cost must equal it. Non-trivial: a block that is "
          "neither all literals nor a single match without literals (>= 2 sequences, or a sequence plus literals)."),
    assumptions=ASSUME_COMMON + ["the cost function is the exported lz.XZCost with 9 bits per literal, as the property states"],
)
MANIFEST_TEXT["C11"] = dict(
    engine="parser-history",
    technique="differential property-based testing (rapid) of OSAP against an independent brute-force optimal-parse dynamic program",
    level="Generated-history exploration with an exact optimality oracle on small buffers (the DP is exhaustive over all legal parses of each block).",
    note=NOTE_PBT)

CHECKS["C12"] = dict(
    {"quick": {"tests": [{"test": "TestC12", "checks": 20000, "subchecks": 1}]},
     "thorough": {"shards": 16, "tests": [{"test": "TestC12", "checks": 100000, "subchecks": 1}]}},
    rule=("GSAP histories without Parse(nil) (Write, ReadFrom, Parse both flags, Shrink, Reset(nil), Reset(data); explicit "
          "mass on Parse(NoTrailingLiterals) directly followed by another Parse; buffers 1..700 bytes, both BufferSize <= "
          "WindowSize and >; MinMatchLen 2..8). Oracle: brute-force longest previous match over the data still buffered, "
          "clipped at the block end: every emitted match has exactly that length; with BufferSize <= WindowSize every "
          "literal position has no earlier match of at least MinMatchLen. Non-trivial: a block with a match parsed after "
          "the second or a later suffix array build (after Shrink>0, refill or Reset of a used parser), or a block parsed "
          "directly after a NoTrailingLiterals block that was cut short without a rebuild in between."),
    assumptions=ASSUME_COMMON,
)
MANIFEST_TEXT["C12"] = dict(
    engine="parser-history",
    technique="differential property-based testing (rapid) of GSAP against a brute-force longest-previous-match oracle",
    level="Generated-history exploration with an exact oracle for match lengths and for literals (when the buffer fits the window).",
    note=NOTE_PBT)

CHECKS["C13"] = dict(
    {"quick": {"tests": [{"test": "TestC13", "checks": 2400, "subchecks": KINDS7},
                         {"test": "TestC13Conc", "checks": 300, "subchecks": 1, "race": True}]},
     "thorough": {"shards": 16, "tests": [{"test": "TestC13", "checks": 4000, "subchecks": KINDS7},
                                          {"test": "TestC13Conc", "checks": 800, "subchecks": 1, "race": True}]}},
    replay_race=True,
    rule=("(1) for each of the 7 kinds: a prior history H1 (any ops, 0..4 fills), then Reset(nil) or Reset(data, spare "
          "capacity), then H2 (any ops incl. ReadAt/ByteAt/Parse(nil)); the twin is a new parser of the same configuration "
          "given the same Reset call and H2; everything H2 returns (n, error identity, sequences, literals, Shrink results, "
          "bytes read) must be equal. (2) the whole history on a second new parser (determinism). (3) schedules: 4..16 "
          "goroutines, each running its own parser or decoder history (equal configurations in several goroutines have "
          "mass), 3 rounds, binary built with -race and GORACE=halt_on_error=1; results compared with the sequential run. "
          "The twins' Reset slices hold different bytes in their spare capacity (not part of the data); 30% of the "
          "histories move in steps of 1-4 bytes over a text of a few bytes; a failure (panic, untrackable result) of only "
          "one twin behind the Reset is a difference. "
          "Non-trivial: (1) H1 parsed >= 1 block with a match (GSAP/OSAP: and rebuilt its structures) and H2 emits >= 1 "
          "match; (3) >= 3 parser instances of >= 2 kinds with matches."),
    assumptions=ASSUME_COMMON + ["the Go race detector reports unsynchronised shared state on the sampled schedules; the harness does not own the scheduler, schedules are sampled not enumerated"],
)
MANIFEST_TEXT["C13"] = dict(
    engine="parser-history",
    technique="differential property-based testing (used-then-Reset parser vs new parser; two new parsers) plus concurrent execution of independent instances under the Go race detector",
    level="Generated-history exploration; the schedule quantifier is sampled (goroutines x race detector), which finds shared mutable state reliably but enumerates no schedules.",
    note=NOTE_PBT)

CHECKS["C19"] = dict(
    {"quick": {"tests": [{"test": "TestC19", "checks": 3000, "subchecks": 6},
                         {"test": "TestC19Runs", "checks": 2500, "subchecks": KINDS7}]},
     "thorough": {"shards": 16, "tests": [{"test": "TestC19", "checks": 8000, "subchecks": 6},
                                          {"test": "TestC19Runs", "checks": 4000, "subchecks": KINDS7}]}},
    rule=("(a)+(b) parser histories as C01 for the six non-optimising kinds: every emitted match ends at the block end or "
          "the next byte differs from the byte Offset back; for BHP/BDHP a literal directly in front of a match differs from "
          "the byte Offset before it whenever that byte is still buffered. (c) run clause: stream = prefix . c^R . suffix "
          "(c: 0x00, 0xff or any byte; R 32..632; any prefix, in 1/4 (GSAP 1/2) of the cases ending with an older run of c "
          "and a separator), every accepted config with BlockSize >= 32 incl. "
          "WindowSize 1 (hash kinds, OSAP) / 2 (GSAP), flags 0, chunked writes, partial parsing and Shrink so that blocks "
          "of >= 32 bytes fall inside the run at its start, middle and end, after Shrink and refill: such a block carries "
          "at most 1 literal byte (hash kinds) / MinMatchLen literal bytes (GSAP, OSAP). Non-trivial: (a) a match longer "
          "than 8 bytes that ends before the block end, (b) a literal in front of a match with its mirror byte buffered, "
          "(c) a block inside a run at stream position > 0 after a Shrink > 0. Known finding D18 (GSAP, the suffix array "
          "neighbour selected lies outside the window) is delimited by a brute-force neighbour rule and counted as "
          "excluded_known."),
    assumptions=ASSUME_COMMON,
)
MANIFEST_TEXT["C19"] = dict(
    engine="parser-history",
    technique="stateful property-based testing (rapid): per-match maximality predicate against the input bytes; constructed run inputs with a literal-count bound",
    level="Generated-history exploration; the run clause uses inputs constructed to place blocks inside runs for every byte value class and minimal windows.",
    note=NOTE_PBT)
CHECKS["C20"] = dict(
    {"quick": {"tests": [{"test": "TestC20", "checks": 5000, "subchecks": KINDS7},
                         {"test": "TestC20Docs", "checks": 10000, "subchecks": 1},
                         {"test": "TestC20Reported", "checks": 500, "subchecks": KINDS7}]},
     "thorough": {"shards": 16, "tests": [{"test": "TestC20", "checks": 50000, "subchecks": KINDS7},
                                          {"test": "TestC20Docs", "checks": 100000, "subchecks": 1},
                                          {"test": "TestC20Reported", "checks": 2000, "subchecks": KINDS7}]}},
    rule=("(1) configuration values of all 7 types with every field zero, from the boundary pool or an arbitrary int, Cost "
          "any valid UTF-8 string: ParseJSON(json.Marshal(&cfg)) has the same dynamic type and DeepEqual fields; the "
          "document is rejected by json.Unmarshal into each of the 6 other types; Clone is equal, a distinct pointer, and "
          "mutating it does not change the original; SetDefaults twice == once and non-zero fields are untouched; "
          "BufConfig() mirrors the fields. (2) documents: unknown/near-miss Type, Type missing, Type not a string, valid "
          "Type decoded into another type (all must be rejected), valid and odd raw documents (no panic). (3) accepted "
          "configurations: ParserConfig()/BufferConfig() equal the defaults-completed configuration (library SetDefaults "
          "and the harness's own documented-rules completion), and a parser built from the reported configuration emits "
          "identical blocks on a generated text. Non-trivial: (1) >= 3 non-zero fields incl. a negative or > 2^32 value; "
          "(2) a document that must be rejected; (3) a configuration with a defaulted field on a text > 20 bytes."),
    assumptions=ASSUME_COMMON + ["Cost strings are valid UTF-8 (encoding/json replaces invalid bytes, which is not the library's doing)"],
)
MANIFEST_TEXT["C20"] = dict(
    engine="config-algebra",
    technique="property-based testing (rapid): JSON round trip, algebraic laws (idempotence, independence of clones), differential behaviour of parsers built from reported configurations",
    level="Generated-value exploration over all configuration types and a boundary pool; thorough adds a native fuzz campaign on ParseJSON (no panic).",
    note=NOTE_PBT)

# bounded native fuzz campaigns (thorough tier only)
CHECKS["C01"]["fuzz"] = [{"target": "FuzzC01", "time": "90s"}]
CHECKS["C05"]["fuzz"] = [{"target": "FuzzC05", "time": "60s"}]
CHECKS["C09"]["fuzz"] = [{"target": "FuzzC09", "time": "120s"}]
CHECKS["C10"]["fuzz"] = [{"target": "FuzzC10", "time": "60s"}]
CHECKS["C11"]["fuzz"] = [{"target": "FuzzC11", "time": "90s"}]
CHECKS["C12"]["fuzz"] = [{"target": "FuzzC12", "time": "60s"}]
CHECKS["C20"]["fuzz"] = [{"target": "FuzzC20", "time": "60s"}]

CHECKS["C13"]["quick"]["tests"].append({"test": "TestC13Wrap", "checks": 500, "subchecks": KINDS7})
CHECKS["C13"]["thorough"]["tests"].append({"test": "TestC13Wrap", "checks": 2000, "subchecks": KINDS7})
CHECKS["C13"]["rule"] += (" (4) WrappedParser.Reset: a wrapped parser used on one reader for 0..12 calls and then Reset to another "
                          "reader emits the same block sequence as a new wrapped parser on that reader.")

CHECKS["C20"]["rule"] += (" (1b) interleaving: with a second configuration marshalled, parsed and rejected in between, "
                          "ParseJSON(json.Marshal(&cfg)) still yields cfg (the result does not depend on other JSON operations).")

# large geometries (buffers of tens of kB up to the 8 MiB default, streams up to 400 kB)
for _pid, _q, _t in [("C01", 60, 200), ("C02", 30, 120), ("C03", 160, 400), ("C14", 100, 300), ("C15", 40, 150), ("C16", 120, 300), ("C19", 30, 120), ("C08", 10, 60)]:
    _sub = {"C15": 8, "C19": 6}.get(_pid, KINDS7)
    CHECKS[_pid]["quick"]["tests"].append({"test": "Test%sLarge" % _pid, "checks": _q, "subchecks": _sub})
    CHECKS[_pid]["thorough"]["tests"].append({"test": "Test%sLarge" % _pid, "checks": _t, "subchecks": _sub})
    CHECKS[_pid]["rule"] += (" Plus large geometries: buffers of 32 KiB..150 kB or the 8 MiB default, default-sized hash tables, "
                             "streams of 20..400 kB (a generated text repeated with mutations and noise, or a short head followed by "
                             "pseudo-random bytes) delivered in chunks of 1 byte..70 kB through Write and scripted readers (several "
                             "32 KiB read chunks per refill), BlockSize up to 1 MiB, same oracles.")

# large decoder geometries (windows of 64 KiB..8 MiB, operands of up to a few MiB)
for _pid in ("C04", "C05", "C06", "C07", "C17", "C18"):
    CHECKS[_pid]["quick"]["tests"].append({"test": "Test%sLarge" % _pid, "checks": 80, "subchecks": 2})
    CHECKS[_pid]["thorough"]["tests"].append({"test": "Test%sLarge" % _pid, "checks": 200, "subchecks": 2})
    CHECKS[_pid]["rule"] += (" Plus large geometries: WindowSize 64 KiB..8 MiB (default), buffers of megabytes, literal runs and "
                             "matches of up to 5 MiB (overlapping copies whose doubling passes 1 MiB, offsets beyond 2^16 and 2^20), "
                             "Init again with another geometry, writer faults with megabytes pending; same oracles.")

CHECKS["C13"]["quick"]["tests"].append({"test": "TestC13ManyResets", "checks": 1500, "subchecks": KINDS7})
CHECKS["C13"]["thorough"]["tests"].append({"test": "TestC13ManyResets", "checks": 4000, "subchecks": KINDS7})
CHECKS["C13"]["quick"]["tests"].append({"test": "TestC13Enum", "checks": 1, "subchecks": 3337242})
CHECKS["C13"]["thorough"]["tests"].append({"test": "TestC13Enum", "checks": 1, "subchecks": 10403610, "once": True,
                                           "env": {"VERIF_C13_H1": "8", "VERIF_C13_H2": "10"}})
CHECKS["C13"]["rule"] += (" (5) small-scope enumeration: for 9 tiny hash parser configurations (few hash bits, small buckets, "
                          "hashes over 3-6 bytes) every pair (H1, H2) of strings over {0x00, 'a'} with |H1| <= 7, |H2| <= 9 "
                          "(8 / 10 in thorough; <= 5 / <= 6 for GSAP and OSAP): a parser that parsed H1 and was Reset emits "
                          "for H2 what a new parser emits (counted as evaluations, not hashed one by one).")

CHECKS["C19"]["quick"]["tests"].append({"test": "TestC19Triple", "checks": 2000, "subchecks": 6})
CHECKS["C19"]["thorough"]["tests"].append({"test": "TestC19Triple", "checks": 8000, "subchecks": 6})
CHECKS["C19"]["rule"] += (" (d) texts holding one string three times (A, B, C between incompressible fillers; distances drawn "
                          "around the window size so that A and B are inside or outside the window of C; C at the end of the "
                          "data or of a block; tables large enough for B's entries to survive), written in one or two pieces "
                          "and parsed to the end; the oracles of (a) and (b).")

CHECKS["C02"]["quick"]["tests"].append({"test": "TestC02Triple", "checks": 1500, "subchecks": 6})
CHECKS["C02"]["thorough"]["tests"].append({"test": "TestC02Triple", "checks": 6000, "subchecks": 6})
CHECKS["C02"]["rule"] += (" Plus the triple-occurrence texts of C19 (d): one string three times with the first copy outside the "
                          "window of the third and the second inside (or other combinations).")

CHECKS["C16"]["quick"]["tests"].append({"test": "TestC16Huge", "checks": 3000, "subchecks": KINDS7})
CHECKS["C16"]["thorough"]["tests"].append({"test": "TestC16Huge", "checks": 60000, "subchecks": KINDS7})
CHECKS["C02"]["quick"]["tests"].append({"test": "TestC02Skip", "checks": 6000, "subchecks": KINDS7})
CHECKS["C02"]["thorough"]["tests"].append({"test": "TestC02Skip", "checks": 25000, "subchecks": KINDS7})
CHECKS["C02"]["quick"]["tests"].append({"test": "TestC02Huge", "checks": 2000, "subchecks": KINDS7})
CHECKS["C02"]["thorough"]["tests"].append({"test": "TestC02Huge", "checks": 8000, "subchecks": KINDS7})
CHECKS["C02"]["rule"] += (" Plus 'no window limit' configurations: WindowSize at and a little below the largest accepted value "
                          "(2^32-8; MaxInt32 for GSAP) with small buffers, short blocks, small hash tables, uniform texts and "
                          "NoTrailingLiterals parses followed by another Parse.")

CHECKS["C15"]["quick"]["tests"].append({"test": "TestC15Foreign", "checks": 600, "subchecks": 1})
CHECKS["C15"]["thorough"]["tests"].append({"test": "TestC15Foreign", "checks": 3000, "subchecks": 1})
CHECKS["C15"]["rule"] += (" Plus two parsers side by side: A is given a caller slice with Reset(data), grows beyond it and is "
                          "dropped, the caller overwrites its slice; B, fed in between (sizes up to 100 kB), must still show "
                          "exactly the bytes it was fed.")

CHECKS["C02"]["rule"] += (" Plus skip histories (TestC02Skip): windows of 1-24 bytes and blocks of 2-20 bytes in a buffer that holds "
                          "several of them, every third to fourth step a Parse(nil).")
CHECKS["C16"]["rule"] += (" Plus TestC16Huge: the same histories on the largest accepted window sizes, with NoTrailingLiterals in "
                          "half of the Parse calls (a fifth of the histories: in all of them) and hash tables of 2-8 slots in half of the cases.")
CHECKS["C10"]["rule"] += (" Plus deep nesting (TestC10Deep): runs and short-period stretches of 100-270 bytes over two or three letters, "
                          "up to 700 bytes (hundreds of groups open at once). Plus TestC10Huge: a run of 10-12.5 million bytes, optionally "
                          "with a smaller byte behind it, sa/lcp written down directly and the groups known in closed form (ten million "
                          "groups open at once; a fatal runtime error is attributed to the case marked as running).")
CHECKS["C10"]["rule"] += (" Plus TestC10Rank: texts of 1100-2700 bytes without repeats of 4 and more bytes except one planted pair that is "
                          "built to sit at a chosen index of the LCP table (256, 512, 768, 1023..1025, 1536, 2047, 2048).")
CHECKS["C13"]["rule"] += (" (6) abandoned streams: H1 = 'P..P L' parsed in part (mostly ending with a NoTrailingLiterals call), after the "
                          "Reset the same text with single bytes changed around the parse position and the original of the changed place "
                          "repeated behind it; also with 2^8..3*2^16 (-1, 0, +1) further Reset(nil) calls in between on small tables "
                          "(TestC13ManyResets); the enumeration (5) is repeated with H1 parsed under NoTrailingLiterals incl. tables of "
                          "256-1024 slots.")
CHECKS["C06"]["rule"] += (" Writers may fail for good from some call on (also with lz.ErrFullBuffer as their own error): the call has to "
                          "return the writer's error; 100 000 writer calls within one call count as a spin. DecoderBuffer histories "
                          "also start from a caller-supplied Data slice (capacity around BufferSize, or empty and not nil).")
CHECKS["C18"]["rule"] += (" A quarter of the faulty-writer cases (half of the fault enumeration) use a writer that also has a Flush() "
                          "method which does not remember errors; a tenth of the scripts end in an event that lasts for ever.")
CHECKS["C07"]["rule"] += (" The large geometries include steady-state streams: 200-4 000 small blocks with matches at and just below the "
                          "window distance, the reader keeping up.")
CHECKS["C09"]["rule"] += (" The text is handed over as the front part of a larger buffer in three of four calls (behind it: the text "
                          "again, its last byte repeated, zeros); sa/sainv operands of LCP are nil, exact, or slices of another length "
                          "cut from one buffer.")
CHECKS["C09"]["quick"]["tests"].append({"test": "TestC09Mega", "checks": 6, "subchecks": 1})
CHECKS["C09"]["thorough"]["tests"].append({"test": "TestC09Mega", "checks": 6, "subchecks": 1})
CHECKS["C09"]["rule"] += (" Plus TestC09Mega: the same checks on texts of 2^20 + {0,1,2,3,4,17,63,64,65,323} bytes (uniform over 200 values "
                          "with two runs of a larger byte).")
CHECKS["C12"]["quick"]["tests"].append({"test": "TestC12Mega", "checks": 3, "subchecks": 1})
CHECKS["C12"]["thorough"]["tests"].append({"test": "TestC12Mega", "checks": 4, "subchecks": 1})
CHECKS["C12"]["rule"] += (" Plus TestC12Mega: GSAP (MinMatchLen 8) on 4 MiB + {0..323} bytes without repeats except a marker of 20 of "
                          "the largest bytes at two places: the second marker is found, every sequence is the longest match.")
CHECKS["C14"]["quick"]["tests"].append({"test": "TestC14BigSkip", "checks": 2, "subchecks": 5})
CHECKS["C14"]["thorough"]["tests"].append({"test": "TestC14BigSkip", "checks": 3, "subchecks": 5, "once": True})
CHECKS["C14"]["rule"] += (" Plus TestC14BigSkip: Parse(nil) over blocks of 16 MiB + 1, 17 and 33 MiB (40 MiB buffers) for the hash parsers.")
CHECKS["C15"]["quick"]["tests"].append({"test": "TestC15BigSA", "checks": 2, "subchecks": 1})
CHECKS["C15"]["thorough"]["tests"].append({"test": "TestC15BigSA", "checks": 3, "subchecks": 1, "once": True})
CHECKS["C15"]["rule"] += (" Plus TestC15BigSA: GSAP with 3 MiB buffered (written at once, three blocks parsed, Shrink by hand, reads at the "
                          "retained and the discarded offsets, more data, more blocks, Shrink) through the stream model.")
CHECKS["C16"]["quick"]["tests"].append({"test": "TestC16BigSA", "checks": 1, "subchecks": 2})
CHECKS["C16"]["thorough"]["tests"].append({"test": "TestC16BigSA", "checks": 2, "subchecks": 2, "once": True})
CHECKS["C16"]["rule"] += (" Plus TestC16BigSA: GSAP with 3 MiB and OSAP with a buffer above the 8 MiB default (8 MiB + 64 KiB) filled "
                          "completely and parsed to the end. The acceptance test puts every accepted parser to a short use (write, "
                          "parse with both flags, shrink).")
CHECKS["C20"]["quick"]["tests"].append({"test": "TestC20Buf", "checks": 3000, "subchecks": 1})
CHECKS["C20"]["thorough"]["tests"].append({"test": "TestC20Buf", "checks": 8000, "subchecks": 1})
CHECKS["C20"]["rule"] += (" Plus TestC20Buf: histories on a bare ParserBuffer in which Init is called again on the used value with another "
                          "(mostly smaller) geometry: BufferConfig() is the defaults-completed configuration given.")
CHECKS["C01"]["quick"]["tests"].append({"test": "TestC01Far", "checks": 12, "subchecks": 1})
CHECKS["C01"]["thorough"]["tests"].append({"test": "TestC01Far", "checks": 20, "subchecks": 1})
CHECKS["C01"]["rule"] += (" Plus TestC01Far: OSAP over 2.1-2.6 MiB of bytes uniform over 256 values with 20-60 planted copies (more than "
                          "2^21 positions in one edge table, many blocks served from it); the blocks expand to the text.")
CHECKS["C12"]["quick"]["tests"].append({"test": "TestC12Bracket", "checks": 8, "subchecks": 1})
CHECKS["C12"]["thorough"]["tests"].append({"test": "TestC12Bracket", "checks": 60, "subchecks": 1, "once": True})
CHECKS["C12"]["rule"] += (" Plus a suffix array of millions of entries with a handful of positions passed: 'W lo' 'W hi' followed by "
                          "70 000 - 1 200 000 records 'W x y' that all sort between the two; the first 64 positions of the first block "
                          "are judged by brute force.")
CHECKS["C11"]["quick"]["tests"].append({"test": "TestC11Enum", "checks": 1, "subchecks": 106526})
CHECKS["C11"]["thorough"]["tests"].append({"test": "TestC11Enum", "checks": 1, "subchecks": 362183, "once": True,
                                           "env": {"VERIF_C11_AB": "17", "VERIF_C11_ABC": "10"}})
CHECKS["C11"]["rule"] += (" Plus small-scope enumeration: every string over {a,b} up to length 15 (thorough: 17) and over {a,b,c} up to 9 (10) "
                          "through OSAP with MinMatchLen 3 (shorter strings also with 2), one block, against the exact optimum.")
CHECKS["C11"]["quick"]["tests"].append({"test": "TestC11Far", "checks": 30, "subchecks": 1})
CHECKS["C11"]["thorough"]["tests"].append({"test": "TestC11Far", "checks": 40, "subchecks": 1})
CHECKS["C11"]["rule"] += (" Plus far distances: OSAP over more than a MiB of bytes that are uniform over 256 values (expanded from one "
                          "drawn seed) with 4-24 planted copies of 2..24 bytes at distances around the powers of two up to 2^20 and beyond; "
                          "repeats are so rare in such a text that the exact optimum of every block is computed by the same dynamic "
                          "program over an index of the minimum-match-length grams.")
for _k in ["HP", "BHP", "DHP", "BDHP", "BUP"]:
    CHECKS["C19"]["quick"]["tests"].append({"test": "TestC19Volume", "checks": 1, "subchecks": 1, "env": {"VERIF_KINDS": _k}})
    CHECKS["C19"]["thorough"]["tests"].append({"test": "TestC19Volume", "checks": 3, "subchecks": 1, "once": True, "env": {"VERIF_KINDS": _k}})
for _k in ["BUP", "HP"]:
    CHECKS["C19"]["quick"]["tests"].append({"test": "TestC19BigBuffer", "checks": 1, "subchecks": 1, "env": {"VERIF_KINDS": _k}})
for _k in ["BUP", "HP", "BHP", "DHP", "BDHP"]:
    CHECKS["C19"]["thorough"]["tests"].append({"test": "TestC19BigBuffer", "checks": 2, "subchecks": 1, "once": True, "env": {"VERIF_KINDS": _k}})
CHECKS["C19"]["rule"] += (" Plus a big buffer: more than 2 GiB buffered at once (BufferSize 2^31 + 128 KiB, a run handed over with Reset), "
                          "skipped with Parse(nil) up to buffer position 2^31 and parsed from there: the run clause behind 2^31 "
                          "(2 GiB of memory per parser; quick: BUP and HP, thorough: all hash parsers).")
CHECKS["C19"]["rule"] += (" Plus volume: a run of one byte of more than 2^32 bytes goes through one instance of each hash parser, every "
                          "block really parsed; the run clause is checked in every block (also where the stream position passes 2^31 "
                          "and 2^32), the expansion within 2 MiB of these marks.")
CHECKS["C15"]["quick"]["tests"].append({"test": "TestC15Volume", "checks": 6, "subchecks": 1})
CHECKS["C15"]["thorough"]["tests"].append({"test": "TestC15Volume", "checks": 8, "subchecks": 1, "once": True,
                                           "env": {"VERIF_VOLUME_PARSERS": "1"}})
CHECKS["C15"]["rule"] += (" Plus volume: one ParserBuffer (thorough: also HP, BHP, DHP, BDHP, BUP instances) is fed more than 2^32 bytes "
                          "of a periodic stream in chunks, consumed (Parse(nil); real Parse calls within 2-8 MiB of 2^31 and 2^32, "
                          "expanded by a reference decoder that keeps 1 MiB of history) and shrunk thousands of times; ReadAt/ByteAt "
                          "are probed at the ends and the middle of the buffer and at offsets 2^31/2^32 away all the way.")
CHECKS["C17"]["quick"]["tests"].append({"test": "TestC17HugeArray", "checks": 200, "subchecks": 1})
CHECKS["C17"]["thorough"]["tests"].append({"test": "TestC17HugeArray", "checks": 1000, "subchecks": 1})
CHECKS["C17"]["rule"] += (" Plus caller-supplied arrays: 1/8 of the DecoderBuffer histories start from a Data slice with a "
                          "capacity drawn around BufferSize, and TestC17HugeArray runs histories on an array of 2^32-1 .. 2^33 bytes "
                          "(address space only), which the buffer adopts as its size.")
CHECKS["C04"]["quick"]["tests"].append({"test": "TestC04Volume", "checks": 4, "subchecks": 1, "env": {"VERIF_VOLUME_DEC": "1"}})
CHECKS["C04"]["thorough"]["tests"].append({"test": "TestC04Volume", "checks": 12, "subchecks": 1, "env": {"VERIF_VOLUME_DEC": "1"}})
CHECKS["C04"]["rule"] += (" Plus volume: one DecoderBuffer / Decoder is driven past 2^32 bytes of output without a Reset (periodic "
                          "stream written with window-sized matches, read out and compared completely), with a generated mix of "
                          "WriteByte, Write, WriteMatch, WriteBlock around and behind the 4 GiB mark.")
CHECKS["C13"]["quick"]["tests"].append({"test": "TestC13Slots", "checks": 800, "subchecks": 5})
CHECKS["C13"]["thorough"]["tests"].append({"test": "TestC13Slots", "checks": 4000, "subchecks": 5})
CHECKS["C13"]["rule"] += (" (7) aimed leftovers (TestC13Slots): hash tables of 2^16..2^18 slots; H1 holds an n-gram built to hash to a "
                          "chosen slot (the first or last four slots, the slots behind the last of 2..16 equal pieces of the table, "
                          "the piece boundaries, or any slot), H2 holds a near-copy at the same position and the n-gram further on; "
                          "GOMAXPROCS (1..16, mostly not a power of two) is part of the case; same differential oracle.")
CHECKS["C02"]["quick"]["tests"].append({"test": "TestC02Collide", "checks": 800, "subchecks": 5})
CHECKS["C02"]["thorough"]["tests"].append({"test": "TestC02Collide", "checks": 5000, "subchecks": 5})
CHECKS["C02"]["rule"] += (" Plus aimed collisions (TestC02Collide, hash parsers): the stream starts with X P M (|X| 0..3, |P| 1..48), then "
                          "n-grams built to take over the hash slots of every position inside X P (all or three quarters of them), then "
                          "P M again: the only match is found at the second M and its backward extension runs up to the first byte of "
                          "the stream.")
