"""Per-property run specification used by ./check: which test functions of the
harness decide the property, how many cases each tier requests, and the texts
that go into the evidence file."""

KINDS7 = 7

ASSUME_COMMON = [
    "the Go toolchain, pgregory.net/rapid v1.3.0 and the harness's reference models (harness/ref*.go) are correct",
    "generated cases are bounded: buffers of at most a few hundred bytes in most cases, streams of a few kB",
]


def parser_hist(test, quick, thorough, subchecks=KINDS7):
    return {
        "quick": {"tests": [{"test": test, "checks": quick, "subchecks": subchecks}]},
        "thorough": {"shards": 16, "tests": [{"test": test, "checks": thorough, "subchecks": subchecks}]},
    }


CHECKS = {}

CHECKS["C01"] = dict(
    parser_hist("TestC01", 3000, 8000),
    rule=("rapid-generated parser histories (config of one of the 7 kinds accepted by NewParser; ops Write/ReadFrom/"
          "Reset(data,cap)/Reset(nil)/Parse(0|NoTrailingLiterals)/Shrink over a segment-structured text), every block "
          "expanded by the reference LZ77 expander with the whole stream as history and compared with the bytes fed. "
          "Non-trivial: >= 2 blocks, >= 1 match, and a Shrink>0 before a later match, or a refill after parsing, or "
          "NoTrailingLiterals on a block with a sequence, or Reset(data) with spare capacity. Distinct = distinct "
          "FNV-64 hash of (config, executed operations)."),
    assumptions=ASSUME_COMMON,
)

CHECKS["C02"] = dict(
    parser_hist("TestC02", 3000, 8000),
    rule=("parser histories as C01 plus Parse(nil); every emitted Seq checked against the absolute stream position "
          "derived by the model (Aux, 1<=Offset<=WindowSize, Offset<=position, MatchLen>=minimum, OSAP MatchLen<="
          "MaxMatchLen, sum LitLen<=len(Literals)). Non-trivial: >= 1 match emitted at a stream position beyond "
          "WindowSize (the window guard is live)."),
    assumptions=ASSUME_COMMON,
)

CHECKS["C03"] = dict(
    parser_hist("TestC03", 3000, 8000),
    rule=("parser histories as C01 with both flag values; (n, err) of every Parse compared with the length of the "
          "reference expansion, Block.Len, BlockSize, the emptiness of the buffer and the NoTrailingLiterals rules; "
          "the block handed in is pre-filled with garbage. Non-trivial: a NoTrailingLiterals block with a sequence that "
          "left trailing bytes uncovered, or >= 3 blocks."),
    assumptions=ASSUME_COMMON,
)

CHECKS["C14"] = dict(
    parser_hist("TestC14", 3000, 8000),
    rule=("parser histories with heavy Parse(nil) interleaved with Parse(&blk), Write, ReadFrom, Shrink; Parse(nil) must "
          "return (min(BlockSize, unparsed), nil) or (0, ErrEmptyBuffer); later blocks are expanded against the stream "
          "with the skipped bytes present verbatim. Non-trivial: a block after a Parse(nil) contains a match whose "
          "source overlaps skipped bytes, or a Shrink>0 after a Parse(nil)."),
    assumptions=ASSUME_COMMON,
)

# ---------------------------------------------------------------------------
# Texts for MANIFEST.json (gen_manifest.py).

NOTE_PBT = ("Exploration only: held on the generated cases counted in the evidence file; never shows absence. Trusted: Go "
            "toolchain, rapid, the harness's reference models; the model derives stream positions from returned values, "
            "not from the implementation's fields.")

MANIFEST_TEXT = {
    "C01": dict(engine="parser-history",
                technique="stateful property-based testing (rapid): round trip through an independent reference LZ77 expander",
                level="Generated-history exploration: thousands of random call histories per parser kind and run, each block "
                      "expanded by an independent expander and compared with the bytes fed. Right level because the property "
                      "quantifies over inputs x configs x histories and has an exact executable oracle (round trip).",
                note=NOTE_PBT),
    "C02": dict(engine="parser-history",
                technique="stateful property-based testing (rapid): validity predicate over every emitted sequence against model-derived stream positions",
                level="Generated-history exploration with a validity predicate per sequence; geometries biased to windows smaller than the buffer so the guards are live.",
                note=NOTE_PBT),
    "C03": dict(engine="parser-history",
                technique="stateful property-based testing (rapid): return values against the reference expansion length and a stream model",
                level="Generated-history exploration; exact oracle for n, err and the NoTrailingLiterals rules.",
                note=NOTE_PBT),
    "C14": dict(engine="parser-history",
                technique="stateful property-based testing (rapid): Parse(nil) against a stream model, later blocks against the reference expander",
                level="Generated-history exploration with heavy Parse(nil); exact oracle for n/err and stream position.",
                note=NOTE_PBT),
}
