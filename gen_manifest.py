#!/usr/bin/env python3
"""Writes MANIFEST.json from checks_table.py (one source of truth)."""
import json
import os
import sys

VERIF = os.path.dirname(os.path.abspath(__file__))
sys.path.insert(0, VERIF)
from checks_table import CHECKS, MANIFEST_TEXT  # noqa: E402

ALL = ["C%02d" % i for i in range(1, 21)]

checks = []
for pid in ALL:
    if pid not in CHECKS or pid not in MANIFEST_TEXT:
        continue
    t = MANIFEST_TEXT[pid]
    checks.append({
        "property_id": pid,
        "quick_cmd": "./check %s --tier quick" % pid,
        "thorough_cmd": "./check %s --tier thorough" % pid,
        "evidence_file": "evidence/%s.json" % pid,
        "replay_cmd_template": "./check %s --replay {path}" % pid,
        "engine": t["engine"],
        "level_claimed": {
            "category": t.get("category", "exploration"),
            "text": t["level"],
            "design_ref": "DESIGN.md section 3, " + pid,
        },
        "level_note": t["note"],
        "technique": t["technique"],
    })

na = []
for pid in ALL:
    if pid not in [c["property_id"] for c in checks]:
        na.append({"property_id": pid, "reason": "check not built yet in this round (planned, see DESIGN.md section 3); not claimed until it exists"})

m = {
    "version": 1,
    "setup_cmd": "./check --setup",
    "hooks": {
        "guard": "verif",
        "enable": "go test -tags verif (the harness is built with the tag; no hook files exist in /repo, everything is observed through the public API)",
        "baseline_off_cmd": "cd /repo && go test -vet=off -count=1 -timeout 25m ./...",
        "source_commits": [],
        "add_only": True,
    },
    "engines": [
        {"name": "parser-history", "path": "harness/pexec.go, harness/pgen.go, harness/wexec.go, harness/scripts.go, harness/parserprops_test.go, harness/wrapprops_test.go, harness/large_test.go, harness/volume_test.go, harness/big_test.go, harness/c11_test.go, harness/c11far_test.go, harness/c12_test.go, harness/c12far_test.go, harness/c13_test.go, harness/c19_test.go",
         "serves_properties": ["C01", "C02", "C03", "C08", "C11", "C12", "C13", "C14", "C15", "C16", "C19"],
         "kind_free_text": "rapid stateful generation of parser call histories executed against the stream model and the reference LZ77 expander"},
        {"name": "decoder-model", "path": "harness/dexec.go, harness/dgen.go, harness/dec_test.go, harness/declarge_test.go, harness/c07_test.go",
         "serves_properties": ["C04", "C05", "C06", "C07", "C17", "C18"],
         "kind_free_text": "rapid stateful generation of DecoderBuffer/Decoder histories with scripted fault-injecting writers against a reference expansion model"},
        {"name": "suffix-oracles", "path": "harness/suffixref.go, harness/suffixgen.go, harness/c09_test.go, harness/c10_test.go, harness/big_test.go",
         "serves_properties": ["C09", "C10"],
         "kind_free_text": "structured text generators and small-scope enumeration against linear-time and brute-force suffix array / LCP / prefix-group checkers"},
        {"name": "config-algebra", "path": "harness/pcfg.go, harness/c16_test.go, harness/c20_test.go",
         "serves_properties": ["C16", "C20"],
         "kind_free_text": "boundary-pool generation and enumeration of configuration values, JSON round trips"},
    ],
    "checks": checks,
    "not_applicable": na,
    "notes": "All checks are property-based tests / fuzzing (pgregory.net/rapid v1.3.0, Go native fuzzing in thorough tiers). "
             "./check <ID> rebuilds the harness against /repo's working tree on every run. VERIF_SEED selects the rapid seeds.",
}
with open(os.path.join(VERIF, "MANIFEST.json"), "w") as f:
    json.dump(m, f, indent=1)
    f.write("\n")
print("claimed:", [c["property_id"] for c in checks])
