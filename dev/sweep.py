#!/usr/bin/env python3
"""Own sensitivity sweep: applies simple hand-written mutants (dev/own_mutants.json:
file, old, new, occurrence, properties expected to notice) to a scratch worktree
of /repo, checks that the pinned tests still pass, runs the named checks with
VERIF_REPO=<worktree>, prints caught / MISSED per (mutant, check)."""
import json, os, subprocess, sys, shutil
VERIF = os.path.dirname(os.path.dirname(os.path.abspath(__file__)))
ENV = dict(os.environ, GOFLAGS="-mod=mod", GOPROXY="off", GOSUMDB="off", GOTOOLCHAIN="local", VERIF_SHRINKTIME="2s")
muts = json.load(open(os.path.join(VERIF, "dev", "own_mutants.json")))
only = sys.argv[1:]
wt = "/var/tmp/lzsweep-%d" % os.getpid()
def sh(cmd, **kw):
    r = subprocess.run(cmd, stdout=subprocess.PIPE, stderr=subprocess.STDOUT, text=True, **kw)
    return r.returncode, r.stdout
results = {}
for m in muts:
    if only and m["name"] not in only and not any(m["name"].startswith(o) for o in only):
        continue
    sh(["git", "-C", "/repo", "worktree", "remove", "--force", wt])
    sh(["git", "-C", "/repo", "worktree", "add", "-q", wt, "HEAD"])
    try:
        path = os.path.join(wt, m["file"])
        s = open(path).read()
        occ = m.get("occurrence", 1)
        idx = -1
        for _ in range(occ):
            idx = s.find(m["old"], idx + 1)
        if idx < 0:
            print("%-34s PATTERN NOT FOUND" % m["name"]); continue
        s = s[:idx] + m["new"] + s[idx + len(m["old"]):]
        open(path, "w").write(s)
        code, out = sh(["go", "build", "./..."], cwd=wt, env=ENV)
        if code != 0:
            print("%-34s DOES NOT BUILD" % m["name"]); continue
        code, out = sh([os.path.join(VERIF, "dev", "baseline.py"), wt])
        if code != 0:
            print("%-34s killed by the pinned tests" % m["name"]); continue
        for cid in m["props"]:
            env = dict(ENV, VERIF_REPO=wt, VERIF_SEED=os.environ.get("VERIF_SEED", "1"))
            code, out = sh([os.path.join(VERIF, "check"), cid], cwd=VERIF, env=env)
            verdict = {0: "MISSED", 1: "caught", 2: "INCONCLUSIVE"}.get(code, str(code))
            msg = ""
            lines = out.splitlines()
            for i, l in enumerate(lines):
                if l.startswith("VIOLATION") and i > 0:
                    msg = lines[i - 1].strip()[:110]; break
            print("%-34s %s %-12s %s" % (m["name"], cid, verdict, msg), flush=True)
            results.setdefault(m["name"], {})[cid] = verdict
    finally:
        sh(["git", "-C", "/repo", "worktree", "remove", "--force", wt])
        shutil.rmtree(wt, ignore_errors=True)
json.dump(results, open("/tmp/sweep-result.json", "w"), indent=1)
