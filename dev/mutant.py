#!/usr/bin/env python3
"""Evaluate one seeded change against the checks.

  dev/mutant.py <dir with patch.diff, demo_test.go> <property id> [--all] [--tier quick] [--seeds 1,2]

Steps (all in a scratch worktree of /repo under /var/tmp, removed at the end):
  1. the patch applies, the library builds, the 31 pinned tests still pass;
  2. the demonstration fails with the patch and passes without it;
  3. ./check <ID> (and with --all every claimed check) is run with
     VERIF_REPO=<worktree> and the exit codes are reported.
Prints a JSON summary on the last line.
"""
import json
import os
import re
import shutil
import subprocess
import sys

VERIF = os.path.dirname(os.path.dirname(os.path.abspath(__file__)))
ENV = dict(os.environ, GOFLAGS="-mod=mod", GOPROXY="off", GOSUMDB="off", GOTOOLCHAIN="local")


def sh(cmd, cwd=None, env=None, timeout=1800):
    r = subprocess.run(cmd, cwd=cwd, env=env or ENV, stdout=subprocess.PIPE, stderr=subprocess.STDOUT,
                       text=True, timeout=timeout, shell=isinstance(cmd, str))
    return r.returncode, r.stdout


def main():
    d = os.path.abspath(sys.argv[1])
    pid = sys.argv[2]
    run_all = "--all" in sys.argv
    tier = "quick"
    seeds = [1]
    for i, a in enumerate(sys.argv):
        if a == "--tier":
            tier = sys.argv[i + 1]
        if a == "--seeds":
            seeds = [int(x) for x in sys.argv[i + 1].split(",")]
    name = os.path.basename(d.rstrip("/"))
    wt = "/var/tmp/lzm-%s-%d" % (name, os.getpid())
    res = {"dir": d, "property": pid}
    sh(["git", "-C", "/repo", "worktree", "remove", "--force", wt])
    code, out = sh(["git", "-C", "/repo", "worktree", "add", "-q", wt, "HEAD"])
    if code != 0:
        print(out)
        return 2
    try:
        patch = os.path.join(d, "patch.diff")
        code, out = sh(["git", "apply", "--whitespace=nowarn", patch], cwd=wt)
        res["applies"] = code == 0
        if code != 0:
            print(out)
            print(json.dumps(res))
            return 1
        code, out = sh("go build ./... && go vet ./... 2>&1 | tail -3", cwd=wt)
        res["builds"] = code == 0
        code, out = sh([os.path.join(VERIF, "dev", "baseline.py"), wt])
        res["baseline_passes"] = code == 0
        print(out.strip().splitlines()[0] if out.strip() else "")
        # demonstration
        demos = [f for f in os.listdir(d) if f.endswith("_test.go")]
        res["demo"] = {}
        for demo in demos:
            src = open(os.path.join(d, demo)).read()
            m = re.search(r"^package\s+(\w+)", src, re.M)
            pkg = m.group(1) if m else "lz"
            sub = "suffix" if pkg.startswith("suffix") else "."
            dst = os.path.join(wt, sub, "zz_" + demo)
            shutil.copy(os.path.join(d, demo), dst)
            tests = re.findall(r"^func (Test\w+)\(", src, re.M)
            run = "^(%s)$" % "|".join(tests) if tests else "."
            c1, o1 = sh(["go", "test", "-vet=off", "-count=1", "-run", run, "./" + sub], cwd=wt, timeout=900)
            sh(["git", "apply", "-R", "--whitespace=nowarn", patch], cwd=wt)
            c0, o0 = sh(["go", "test", "-vet=off", "-count=1", "-run", run, "./" + sub], cwd=wt, timeout=900)
            sh(["git", "apply", "--whitespace=nowarn", patch], cwd=wt)
            os.remove(dst)
            res["demo"][demo] = {"fails_with_patch": c1 != 0, "passes_without": c0 == 0}
            if c1 == 0:
                print("demo does not fail with the patch:\n" + o1[-600:])
            if c0 != 0:
                print("demo does not pass without the patch:\n" + o0[-600:])
        # checks
        sys.path.insert(0, VERIF)
        from checks_table import CHECKS
        ids = sorted(CHECKS) if run_all else [pid]
        res["checks"] = {}
        for cid in ids:
            for seed in seeds:
                env = dict(ENV, VERIF_REPO=wt, VERIF_SEED=str(seed))
                code, out = sh([os.path.join(VERIF, "check"), cid, "--tier", tier], cwd=VERIF, env=env, timeout=7200)
                viol = [l for l in out.splitlines() if l.startswith("VIOLATION")]
                msg = ""
                lines = out.splitlines()
                for i, l in enumerate(lines):
                    if l.startswith("VIOLATION") and i > 0:
                        msg = lines[i - 1].strip()[:300]
                        break
                key = cid if len(seeds) == 1 else "%s@%d" % (cid, seed)
                res["checks"][key] = {"exit": code, "violations": len(viol), "msg": msg}
                print("%s seed %d -> exit %d %s" % (cid, seed, code, msg[:160]))
                if code == 2:
                    print(out[-800:])
    finally:
        sh(["git", "-C", "/repo", "worktree", "remove", "--force", wt])
        shutil.rmtree(wt, ignore_errors=True)
    print(json.dumps(res))
    return 0


if __name__ == "__main__":
    sys.exit(main())
