#!/usr/bin/env python3
"""Prints the markdown table 'which checks catch which seeded changes' from
/verif/seeded/*/meta.json."""
import json, os
root = "/verif/seeded"
rows = []
for name in sorted(os.listdir(root)):
    mp = os.path.join(root, name, "meta.json")
    if not os.path.exists(mp):
        continue
    m = json.load(open(mp))
    checks = m.get("check_results") or {}
    caught = sorted(k for k, v in checks.items() if v.get("exit") == 1)
    missed_own = m["breaks_property"] not in caught
    incon = sorted(k for k, v in checks.items() if v.get("exit") == 2)
    rows.append((name, m["breaks_property"], "yes" if not missed_own else "**NO**", ", ".join(caught) or "-", ", ".join(incon)))
print("| seeded change | property | caught by its own check (quick) | all quick checks that report it | inconclusive |")
print("|---|---|---|---|---|")
for r in rows:
    print("| %s | %s | %s | %s | %s |" % r)
