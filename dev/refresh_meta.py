#!/usr/bin/env python3
"""Updates seeded/<name>/meta.json from the result files of a matrix run
(dev/mutant.py JSON lines): usage refresh_meta.py <result dir> [names...]
Only the checks present in the result file are updated; earlier results for
other checks ("also caught by") are kept."""
import json, os, sys, glob
resdir = sys.argv[1]
names = sys.argv[2:] or [os.path.basename(p)[:-5] for p in glob.glob(os.path.join(resdir, "*.json"))]
n = 0
for name in sorted(names):
    rp = os.path.join(resdir, name + ".json")
    mp = os.path.join("/verif/seeded", name, "meta.json")
    if not (os.path.exists(rp) and os.path.exists(mp)):
        continue
    try:
        res = json.load(open(rp))
    except Exception:
        continue
    if not res.get("checks"):
        continue
    meta = json.load(open(mp))
    cr = meta.get("check_results") or {}
    cr.update(res["checks"])
    meta["check_results"] = cr
    meta["confirmed"] = {
        "patch_applies_and_builds": res.get("applies") and res.get("builds"),
        "pinned_31_tests_pass_with_patch": res.get("baseline_passes"),
        "demo": res.get("demo"),
    }
    json.dump(meta, open(mp, "w"), indent=1)
    n += 1
print("updated", n)
