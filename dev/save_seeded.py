#!/usr/bin/env python3
"""Store a confirmed seeded change under /verif/seeded/<name>/ (patch.diff, the
demonstration, NOTES.md of the author, meta.json)."""
import json, os, shutil, sys
src, name, prop, needs, result_json = sys.argv[1:6]
dst = os.path.join("/verif/seeded", name)
os.makedirs(dst, exist_ok=True)
for f in os.listdir(src):
    if f in ("patch.diff", "NOTES.md") or f.endswith("_test.go"):
        shutil.copy(os.path.join(src, f), dst)
res = json.loads(result_json)
meta = {
    "name": name,
    "breaks_property": prop,
    "needs_to_manifest": needs,
    "author": "independent sub-agent given only the property text and a scratch worktree",
    "confirmed": {
        "patch_applies_and_builds": res.get("applies") and res.get("builds"),
        "pinned_31_tests_pass_with_patch": res.get("baseline_passes"),
        "demo": res.get("demo"),
    },
    "ran": "dev/mutant.py %s %s (scratch worktree of /repo HEAD under /var/tmp, patch applied, ./check with VERIF_REPO=<worktree>, worktree removed)" % (src, prop),
    "check_results": res.get("checks"),
}
json.dump(meta, open(os.path.join(dst, "meta.json"), "w"), indent=1)
print("saved", dst)
