#!/usr/bin/env python3
"""Regenerates the seeded-changes table of DESIGN.md (between the two markers)
from seeded/*/meta.json via dev/seeded_table.py."""
import re, subprocess, glob, os
p = "/verif/DESIGN.md"
s = open(p).read()
table = subprocess.run(["python3", "/verif/dev/seeded_table.py"], stdout=subprocess.PIPE, text=True).stdout.strip()
b, e = "<!-- seeded-table-begin -->", "<!-- seeded-table-end -->"
if b not in s:
    s = s.replace("SEEDED_TABLE_PLACEHOLDER", b + "\n" + e)
s = re.sub(re.escape(b) + r".*?" + re.escape(e), lambda m: b + "\n" + table + "\n" + e, s, flags=re.S)
n = len(glob.glob("/verif/seeded/*/meta.json"))
s = re.sub(r"produced (NCHANGES_PLACEHOLDER|\d+) changes that", "produced %d changes that" % n, s)
open(p, "w").write(s)
print("table rows:", table.count("\n") - 1, "changes:", n)
