#!/usr/bin/env python3
"""Prints the DESIGN.md table of seeded changes from seeded/*/meta.json."""
import glob, json, os
V = os.path.dirname(os.path.dirname(os.path.abspath(__file__)))
rows = []
for d in sorted(glob.glob(os.path.join(V, "seeded", "*", ""))):
    m = json.load(open(os.path.join(d, "meta.json")))
    cr = m.get("check_results") or {}
    if isinstance(cr, str):
        cr = eval(cr)
    caught = sorted(k for k, v in cr.items() if v.get("exit") == 1)
    incon = sorted(k for k, v in cr.items() if v.get("exit") == 2)
    needs = m.get("needs_to_manifest", "").replace("|", "/").replace("\n", " ")
    short = needs.split(". Needs")[0]
    if len(short) > 230:
        short = short[:227] + "..."
    tgt = m["breaks_property"]
    mark = "yes" if tgt in caught else "**no**"
    others = [c for c in caught if c != tgt]
    rows.append("| %s | %s | %s | %s | %s |" % (m["name"], short, mark, ", ".join(others) or "-", m.get("note", "") + (" inconclusive: " + ", ".join(incon) if incon else "")))
print("| change | what it does | caught by its own check (quick, seed 1) | also caught by | remarks |")
print("|---|---|---|---|---|")
print("\n".join(rows))
