#!/usr/bin/env python3
"""Validate MANIFEST.json and every evidence file against the given schemas
(run with python3-vt, which has jsonschema)."""
import json, sys, os
import jsonschema
V = os.path.dirname(os.path.dirname(os.path.abspath(__file__)))
ms = json.load(open("/root/.vp/MANIFEST.schema.json"))
es = json.load(open("/root/.vp/EVIDENCE.schema.json"))
m = json.load(open(os.path.join(V, "MANIFEST.json")))
jsonschema.validate(m, ms)
bad = 0
props = [json.loads(l)["id"] for l in open(os.path.join(V, "properties.jsonl"))]
claimed = [c["property_id"] for c in m["checks"]]
na = [x["property_id"] if isinstance(x, dict) else x for x in m.get("not_applicable", [])]
for p in props:
    if p not in claimed and p not in na:
        print("property neither claimed nor not_applicable:", p); bad += 1
for c in m["checks"]:
    f = os.path.join(V, c["evidence_file"])
    try:
        e = json.load(open(f))
        jsonschema.validate(e, es)
        if e["property_id"] != c["property_id"] or e["level"] != c["level_claimed"]["category"]:
            print("mismatch", f); bad += 1
        if e.get("violations"):
            print("evidence records violations:", f, e["violations"]); bad += 1
        cov = e["coverage"]
        print("%s %-8s ev=%-7d nontrivial=%-6d samples=%d wall=%.1f" % (c["property_id"], e["tier"], cov["evaluations"], cov["distinct_nontrivial"], len(cov["samples"]), e["wall_s"]))
    except Exception as ex:
        print("INVALID", f, str(ex)[:300]); bad += 1
print("OK" if not bad else "%d problems" % bad)
sys.exit(1 if bad else 0)
