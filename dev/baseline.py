#!/usr/bin/env python3
"""Runs the repository's pinned test suite (in DIR, default /repo) and checks
that the 31 stable tests of /root/.vp/BASELINE.json pass. Exit 0 iff all pass."""
import json, os, subprocess, sys
d = sys.argv[1] if len(sys.argv) > 1 else "/repo"
env = dict(os.environ, GOFLAGS="-mod=mod", GOPROXY="off", GOSUMDB="off", GOTOOLCHAIN="local")
r = subprocess.run(["go", "test", "-json", "-vet=off", "-count=1", "-timeout", "25m", "./..."],
                   cwd=d, env=env, stdout=subprocess.PIPE, stderr=subprocess.STDOUT, text=True)
res = {}
for line in r.stdout.splitlines():
    try:
        e = json.loads(line)
    except ValueError:
        continue
    if e.get("Test") and e.get("Action") in ("pass", "fail", "skip"):
        res[e["Package"] + "::" + e["Test"]] = e["Action"]
want = json.load(open("/root/.vp/BASELINE.json"))["stable_pass"]
bad = [t for t in want if res.get(t) != "pass"]
print("stable tests passing: %d/%d" % (len(want) - len(bad), len(want)))
for t in bad:
    print("  NOT PASSING:", t, res.get(t))
sys.exit(1 if bad else 0)
